#!/usr/bin/env python3
"""Confirm a seeded change independently and run the registered check(s) against it.

usage: seed_try.py <PROP> <name> <dir with patch.diff demo.py [notes.md]> [--tier quick|thorough] [--checks C20,C07] [--skip-confirm]

1. In a fresh scratch worktree of /repo (removed afterwards): demo passes on the original, fails with the patch, and the
   pinned test suite still passes with the patch.
2. Copies the change to /verif/seeded/<PROP>-<name>/ and writes meta.json.
3. Applies the patch to /repo, runs ./check for each requested property, and restores /repo (git checkout -- .).
"""
import json
import os
import shutil
import subprocess
import sys
import time

VERIF = os.path.dirname(os.path.dirname(os.path.abspath(__file__)))


def sh(cmd, **kw):
    return subprocess.run(cmd, shell=isinstance(cmd, str), stdout=subprocess.PIPE, stderr=subprocess.STDOUT, text=True, **kw)


def main():
    args = sys.argv[1:]
    prop, name, src = args[0], args[1], args[2]
    tier = "quick"
    checks = [prop]
    skip = False
    in_repo = False
    i = 3
    while i < len(args):
        if args[i] == "--tier":
            tier = args[i + 1]
            i += 2
        elif args[i] == "--checks":
            checks = args[i + 1].split(",")
            i += 2
        elif args[i] == "--skip-confirm":
            skip = True
            i += 1
        elif args[i] == "--in-repo":
            in_repo = True
            i += 1
        else:
            raise SystemExit("bad arg " + args[i])
    dst = os.path.join(VERIF, "seeded", "%s-%s" % (prop, name))
    os.makedirs(dst, exist_ok=True)
    for f in ("patch.diff", "demo.py", "notes.md"):
        if os.path.exists(os.path.join(src, f)) and os.path.abspath(src) != os.path.abspath(dst):
            shutil.copy(os.path.join(src, f), os.path.join(dst, f))
    meta_path = os.path.join(dst, "meta.json")
    meta = json.load(open(meta_path)) if os.path.exists(meta_path) else {}
    meta.update({"property": prop, "name": name})
    if in_repo:
        assert sh("git -C /repo status --porcelain --untracked-files=no").stdout.strip() == "", "/repo has uncommitted changes"
    head = sh("git -C /repo rev-parse --short HEAD").stdout.strip()
    if not skip:
        wt = "/tmp/seed/confirm_%d" % os.getpid()
        sh("git -C /repo worktree add -q --detach %s HEAD" % wt)
        try:
            env = dict(os.environ, PYTHONPATH=wt + "/src")
            demo = os.path.join(dst, "demo.py")
            txt = open(demo).read()
            # demos written inside an agent's worktree may hard-code its path
            import re

            txt2 = re.sub(r"/tmp/seed/wt_[A-Za-z0-9_]+", wt, txt)
            demo_run = os.path.join(wt, "_demo_run.py")
            open(demo_run, "w").write(txt2)
            r0 = sh(["/venv/bin/python", demo_run], env=env, cwd=wt)
            ap = sh("git -C %s apply %s" % (wt, os.path.join(dst, "patch.diff")))
            r1 = sh(["/venv/bin/python", demo_run], env=env, cwd=wt)
            os.unlink(demo_run)
            bl = sh(["python3", os.path.join(VERIF, "tools", "baseline.py"), wt])
            meta["confirm"] = {
                "repo_head": head,
                "demo_on_original_exit": r0.returncode,
                "patch_applies": ap.returncode == 0,
                "demo_with_patch_exit": r1.returncode,
                "demo_with_patch_tail": r1.stdout.strip().splitlines()[-3:],
                "baseline_with_patch": bl.stdout.strip().splitlines()[0] if bl.stdout.strip() else "?",
                "baseline_ok": bl.returncode == 0,
                "commands": ["PYTHONPATH=<wt>/src /venv/bin/python demo.py (original, then with patch.diff applied)",
                             "python3 /verif/tools/baseline.py <wt>"],
            }
            ok = r0.returncode == 0 and ap.returncode == 0 and r1.returncode != 0 and bl.returncode == 0
            meta["confirmed"] = ok
            print("confirm:", json.dumps(meta["confirm"])[:600])
        finally:
            sh("git -C /repo worktree remove --force %s" % wt)
        if not ok:
            json.dump(meta, open(meta_path, "w"), indent=1)
            print("NOT CONFIRMED -> not kept as a seeded change")
            return 2
    # run the checks against the patched tree: by default a scratch worktree given to the checks through VERIF_REPO
    # (so /repo is never modified and trials can run next to other work); --in-repo applies the patch to /repo itself,
    # runs the registered commands there and restores it straight afterwards.
    results = meta.setdefault("check_results", {})
    if in_repo:
        target = "/repo"
        ap = sh("git -C /repo apply %s" % os.path.join(dst, "patch.diff"))
        env = dict(os.environ)
        env.pop("VERIF_REPO", None)
    else:
        target = "/tmp/seed/trial_%d" % os.getpid()
        sh("git -C /repo worktree add -q --detach %s HEAD" % target)
        ap = sh("git -C %s apply %s" % (target, os.path.join(dst, "patch.diff")))
        env = dict(os.environ, VERIF_REPO=target)
    try:
        if ap.returncode != 0:
            print("patch does not apply:", ap.stdout)
            return 2
        for c in checks:
            t0 = time.time()
            r = sh(["./check", c, "--tier", tier], cwd=VERIF, env=env)
            lines = [l for l in r.stdout.splitlines() if l.startswith(("VIOLATION", "SUMMARY", "HARNESS", "INCONCLUSIVE", "  obligation"))]
            results["%s/%s" % (c, tier)] = {"exit": r.returncode, "detected": r.returncode == 1, "wall_s": round(time.time() - t0, 1),
                                            "repo_head": head, "mode": "applied to /repo" if in_repo else "scratch worktree via VERIF_REPO",
                                            "output": [l[:400] for l in lines[:8]] + [l[:400] for l in lines[-1:]]}
            print("check %s %s -> exit %d (%.0fs)" % (c, tier, r.returncode, time.time() - t0))
            for l in lines[:6]:
                print("   ", l[:300])
    finally:
        if in_repo:
            sh("git -C /repo checkout -- .")
            sh("git -C /repo clean -fdq src")
        else:
            sh("git -C /repo worktree remove --force %s" % target)
            import hashlib
            shutil.rmtree(os.path.join(VERIF, ".work", "alt-" + hashlib.sha256(target.encode()).hexdigest()[:10]), ignore_errors=True)
    meta["detected_by"] = sorted(k for k, v in results.items() if v["detected"])
    json.dump(meta, open(meta_path, "w"), indent=1)
    # evidence files must describe the unchanged tree: they are regenerated by the caller afterwards
    return 0


if __name__ == "__main__":
    sys.exit(main())
