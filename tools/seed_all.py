#!/usr/bin/env python3
"""Re-run the registered quick check of every kept seeded change (scratch worktree via VERIF_REPO, or --in-repo) and print a table.
usage: seed_all.py [--in-repo] [--only C15]"""
import glob, json, os, subprocess, sys
HERE = os.path.dirname(os.path.dirname(os.path.abspath(__file__)))
args = sys.argv[1:]
only = args[args.index("--only") + 1] if "--only" in args else None
rows = []
for d in sorted(glob.glob(os.path.join(HERE, "seeded", "*"))):
    name = os.path.basename(d)
    prop, label = name.split("-", 1)
    if only and prop != only:
        continue
    meta = json.load(open(os.path.join(d, "meta.json"))) if os.path.exists(os.path.join(d, "meta.json")) else {}
    checks = meta.get("checks_to_run") or [prop]
    cmd = ["python3", os.path.join(HERE, "tools", "seed_try.py"), prop, label, d, "--skip-confirm", "--checks", ",".join(checks)]
    if "--in-repo" in args:
        cmd.append("--in-repo")
    r = subprocess.run(cmd, stdout=subprocess.PIPE, stderr=subprocess.STDOUT, text=True)
    meta = json.load(open(os.path.join(d, "meta.json")))
    rows.append((name, meta.get("detected_by")))
    print(name, "->", meta.get("detected_by") or "NOT DETECTED", flush=True)
print("\n%d seeded changes, %d detected" % (len(rows), sum(1 for _, d in rows if d)))
