#!/usr/bin/env python3
"""Compare the SymStr models of str methods with CPython on every string of length 1 over the engine's alphabet and on
all pairs over a class-representative sub-alphabet.  usage: PYTHONPATH=lib .venv/bin/python tools/selftest_symstr.py"""
import itertools
import sys

from symx.core import SIGMA, Engine, SymBool, SymStr, is_sym


def conc(v):
    if isinstance(v, SymBool):
        return bool(v)
    if is_sym(v):
        return v.concrete()
    if isinstance(v, (list, tuple)):
        return type(v)(conc(x) for x in v)
    return v


def main():
    e = Engine()
    e.start([])
    preds = ["isupper", "islower", "isalnum", "isalpha", "isdigit", "isdecimal", "isnumeric", "isidentifier", "isspace", "istitle"]
    maps = ["lower", "upper", "capitalize", "title", "swapcase", "casefold", "strip", "lstrip", "rstrip", "split", "splitlines"]
    bad = 0
    SIG = [chr(c) for c in SIGMA]
    sub = [c for c in "aZ1_- \n\u00e9\u00df\u01c5\u0130\u2028" if c in SIG]
    strings = list(SIG) + ["".join(t) for t in itertools.product(sub, repeat=2)] + ["".join(t) for t in itertools.product(sub[:7], repeat=3)]
    for s in strings:
        ss = SymStr.lift(s)
        for m in preds + maps:
            if not hasattr(ss, m):
                continue
            try:
                got = conc(getattr(ss, m)())
            except BaseException as ex:  # Unsupported is fine: never a wrong answer
                if type(ex).__name__ in ("Unsupported",):
                    continue
                got = "raised %r" % (ex,)
            want = getattr(s, m)()
            if got != want:
                bad += 1
                if bad < 40:
                    print("MISMATCH %r.%s(): model %r, CPython %r" % (s, m, got, want))
    print("strings %d, mismatches %d" % (len(strings), bad))
    return 1 if bad else 0


if __name__ == "__main__":
    sys.exit(main())
