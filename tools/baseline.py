#!/usr/bin/env python3
"""Run the repository's pinned test suite (in parallel) and compare with /root/.vp/BASELINE.json.
usage: baseline.py [repo_dir]   exit 0 iff every stable-pass test passed."""
import ast, json, os, subprocess, sys, tempfile, xml.etree.ElementTree as ET
repo = sys.argv[1] if len(sys.argv) > 1 else "/repo"
base = json.load(open("/root/.vp/BASELINE.json"))
stable = base["stable_pass"]
if isinstance(stable, str):
    stable = ast.literal_eval(stable)
stable = set(stable)
out = tempfile.mktemp(suffix=".xml")
env = dict(os.environ); env.pop("PYOPENAPI_GEN_VERIF", None)
cmd = ["/venv/bin/python", "-m", "pytest", "-q", "-p", "no:cacheprovider", "--timeout=900", "--continue-on-collection-errors", "-n", "16", "--junitxml=" + out]
if repo != "/repo":
    env["PYTHONPATH"] = os.path.join(repo, "src")
p = subprocess.run(cmd, cwd=repo, env=env, stdout=subprocess.PIPE, stderr=subprocess.STDOUT, text=True)
passed = set()
for tc in ET.parse(out).getroot().iter("testcase"):
    if not any(ch.tag in ("failure", "error", "skipped") for ch in tc):
        passed.add("%s::%s" % (tc.get("classname"), tc.get("name")))
os.unlink(out)
missing = sorted(stable - passed)
if missing and len(missing) <= 12:
    # wall-clock assertions fail under machine load: give every not-passing test one run of its own
    def nodeid(t):
        cls, name = t.split("::", 1)
        parts = cls.split(".")
        for k in range(len(parts), 0, -1):
            f = os.path.join(repo, *parts[:k]) + ".py"
            if os.path.isfile(f):
                return "::".join([os.path.join(*parts[:k]) + ".py"] + parts[k:] + [name])
        return None
    still = []
    for t in missing:
        nid = nodeid(t)
        r = subprocess.run(["/venv/bin/python", "-m", "pytest", "-q", "-p", "no:cacheprovider", "--timeout=900", nid], cwd=repo, env=env,
                           stdout=subprocess.PIPE, stderr=subprocess.STDOUT, text=True) if nid else None
        if r is None or r.returncode != 0:
            still.append(t)
        else:
            passed.add(t)
    missing = still
print("stable baseline: %d  passed now: %d  baseline tests not passing: %d" % (len(stable), len(passed), len(missing)))
for m in missing[:40]:
    print("  NOT PASSING:", m)
sys.exit(1 if missing else 0)
