#!/usr/bin/env python3
"""Regenerates MANIFEST.json from the table below (keeps it valid at all times)."""
import json, os
HERE = os.path.dirname(os.path.dirname(os.path.abspath(__file__)))
E1 = "symx (custom symbolic executor over the real source, z3 back end)"
E2 = "CrossHair 0.0.110 (symbolic execution of Python with z3) on PEP-316 harnesses over the real runtime / generated client"
CHECKS = {
 "C20": dict(engine="symx", technique="bounded symbolic execution of the real name-derivation code (import-hook instrumented), z3 decides every path; counterexamples replayed on the uninstrumented code",
   text="All strings up to the stated length over a 144-code-point alphabet (pairs/triples over a 14-character class-representative alphabet) are decided by z3 path by path for every name-deriving kernel: validity (non-empty identifier, not a keyword) and pairwise distinctness inside one namespace. Bounded model checking of the real code, not a proof: longer names and code points outside the alphabet are outside the claim.",
   note="Trusts z3 (QF_LIA), CPython's str/re behaviour tabulated per character from the running interpreter, and the symx instrumentation (validated every run: each explored path's witness is re-executed on the uninstrumented code and compared). Rendering and file I/O are stubbed; naming loops are the repo's.", ref="§2 C20"),
}
CHECKS["C06"] = dict(engine="symx", technique="symbolic execution (symx/z3) of the real HttpxTransport.request and of the match statement emitted by the real generator, status code one symbolic integer over 100..599",
   text="For 8 operation templates (declared-status shapes) x {bundled transport, custom transport returning non-2xx unraised} the status is a single symbolic int over the whole 100..599 range; z3 decides every path of the emitted match statement and of HttpxTransport.request: non-2xx always raises the package's HTTPError carrying status and response, ClientError for 4xx, ServerError for 5xx. Importability of the emitted endpoints module for each declared set is checked first. Bounded by the template family.",
   note="Trusts z3 (QF_LIA), the symx instrumentation (each path's witness re-run on the uninstrumented generated package), and that the 8 templates represent the declared-status shapes; the response body is a fixed conforming object.", ref="§2 C06")
CHECKS["C17"] = dict(engine="symx", technique="symbolic execution (symx/z3) of the real HttpxTransport._prepare_headers/request and the bundled auth plugins against a reference fold; plugin sequences, header names, locations and argument presence are solver-decided choices, values symbolic strings",
   text="Every sequence of <=2 (quick) / <=3 (thorough) bundled auth plugins of every kind, header names from a pool with case variants, API-key location header/query/cookie, presence/None-ness of caller params, cookies and json, defaults vs per-request headers vs transport bearer token: the kwargs reaching httpx.AsyncClient.request equal the statement's fold for all symbolic values.",
   note="httpx below AsyncClient.request (its own case-insensitive header merge) is outside the claim; values are length-1 symbolic strings (pure pass-through data); the oracle is props/c17.py:expected().", ref="§2 C17")
CHECKS["C18"] = dict(engine="symx", technique="symbolic execution (symx/z3) of the real SSE/NDJSON helpers over httpx's real LineDecoder: stream characters symbolic, split points solver-decided; metamorphic oracle (chunked == unsplit) plus a weak reference on canonical streams",
   text="For every text up to 4 (quick) / 5-6 (thorough) symbolic characters over the alphabet 'dat: LF CR x é U+2028 { 1' and every subset of split points, and for SSE templates with concrete field names and symbolic payload/separator characters with <=1/<=2 split points anywhere, z3 decides that iter_sse, iter_sse_events_text and iter_ndjson yield exactly the items of the unsplit stream; a weak reference decides the positive half on canonical LF-terminated streams.",
   note="Byte-level splitting inside a multi-byte character is decided by codecs' incremental decoder inside httpx (C code) and is outside the claim; json.loads is an identity stub; the stub response reproduces httpx.Response.aiter_lines' loop over the instrumented httpx LineDecoder.", ref="§2 C18")
CHECKS["C15"] = dict(engine="symx", technique="symbolic execution (symx/z3) of the real model/endpoint/client renderers on a spec object carrying one symbolic text, followed by a reference model of Python's lexical rules executed on the symbolic output; lexer validated against CPython every run",
   text="For 30 text-bearing sites (descriptions, enum values, wire keys, defaults, discriminator names/values, parameter/header names, tags, media types, title/version) and every text up to 2 (quick) / 3-4 (thorough) characters over a 21-character hostile alphabet (quotes, backslash, LF, CR, TAB, #, braces, escape letters, NUL, FF, U+2028, non-ASCII, astral), z3 decides every path of the real rendering code and of the reference lexer: each rendered fragment lexes, has the token skeleton of the benign rendering, and meaning-carrying literals evaluate to the original text.",
   note="Trusts z3, the symx instrumentation (every path witness re-rendered by the uninstrumented code and compared), and lib/pylex.py, which is compared with CPython (ast.parse, AST shape, constants) on every text up to 2/3 characters at every site each run. Black is stubbed to the identity; texts long enough to wrap are outside the claim; other texts of the object are benign.", ref="§2 C15")
CHECKS["C07"] = dict(engine="symx", technique="symbolic execution (symx/z3) of the real parse_operations, operationId de-duplication, EndpointsEmitter.emit grouping and ClientVisitor tag tuples; operationIds, path strings, tags and the status key are symbolic",
   text="For documents of 2-3 operations: operationIds / path strings up to 2 (quick) / 3 (thorough) symbolic characters under all three naming strategies, tags up to 2 / 3-4 symbolic characters over 'aAbB1-_ .é中' in four tag-assignment shapes, and the response key as int or str for every status 100..599 - z3 decides every path: operations out == operations in, method names valid and distinct, no two tag groups write the same module, every (operation, tag) pair is served by a written client, APIClient derives exactly the written (class, module) pairs.",
   note="Trusts z3 and the symx instrumentation (every path witness re-run on the uninstrumented code). Rendering, file I/O and pathlib are recording stubs; a raised exception counts as visible failure. More than 3 operations, longer names and YAML parsing itself are outside the claim.", ref="§2 C07")
CHECKS["C13"] = dict(engine="symx", technique="symbolic execution (symx/z3) of the real EndpointsEmitter.emit, MocksEmitter.emit/_group_operations_by_tag and ClientVisitor.visit with symbolic tags; routing and naming half of the property",
   text="For 1-3 operations in five tag-assignment shapes with tags up to 2 (quick) / 3 (thorough) symbolic characters over 'aAbB1-_ .é中', z3 decides every path: each endpoint client has exactly one mock with the same (class, module) and the same operation set, mock files never overwrite each other, and MockAPIClient is assembled from exactly APIClient's tag tuples. Parameter-by-parameter signature equality of client / Protocol / mock is NOT decided (no symbolic input to range over; stated in DESIGN.md).",
   note="Partial claim: routing and naming only. Rendering, file I/O and pathlib are recording stubs; the Protocol is emitted from the same operation list as its client by construction of emit_endpoint_client_class.", ref="§2 C13")
CHECKS["C04"] = dict(engine="symx", technique="symbolic execution (symx/z3) of endpoint methods emitted by the real generator, called with symbolic arguments against a recording transport; plus two string lemmas over all names decided on the real sanitiser / URL builder",
   text="For 11 operation shapes (path/query/header/cookie parameters incl. path-level ones and names needing sanitisation, JSON model / JSON array / form / multipart / octet-stream bodies, two request content types; GET/POST/PUT/PATCH/DELETE) every argument is symbolic (strings of length 1 quick / <=2 thorough over 'a/ %&=é{', ints, bools, list and model leaves) and the None-ness of every optional argument is solver-decided: exactly one request, method, URL with the path values substituted, every supplied query/header/cookie argument under its original name with the caller's value, None ones absent, body keyword and content equal to an independent reference. Lemmas for all strings up to 3/5 (sanitize_method_name idempotent) and all well-formed path templates up to 4/6 characters (URL variables == declared path arguments).",
   note="Trusts z3, the symx instrumentation (each path witness re-run on the uninstrumented generated package), the OPS table in props/c04.py as the independent statement of each operation, and that the 11 templates represent the request shapes. httpx's own URL/query encoding and Content-Type selection lie below the recording transport: outside the claim.", ref="§2 C04")
CHECKS["C16"] = dict(engine="crosshair", technique="CrossHair (symbolic execution of Python with z3) on PEP-316 conditions over the real structure_from_dict / unstructure_to_dict / DataclassSerializer: leaf values, presence flags, list lengths and graph edges symbolic; one process per condition, reachability twins, native replay of counterexamples",
   text="For a stated family of 7 dataclass types (plain, keyword-like and case-colliding wire keys, datetime/date/bytes/bool leaves, nesting to depth 3 through dataclass, list, dict, optional, list of lists, and a recursive Node) CrossHair decides 15 conditions per warm-up history of the global converter (2 quick / 3 thorough): decode-encode and encode-decode identities, ValueError naming the offending field, and DataclassSerializer terminating with JSON data without null-valued keys on every edge assignment of 3-node (next-only / children-only) and 2-node (mixed) object graphs.",
   note="'Confirmed over all paths' within the per-condition timeout is CrossHair's verdict; a counterexample is replayed natively before it is reported; everything else is inconclusive. cattrs' eval is rebound to an untraced eval and the converter's per-call code generation is memoised per class (stated stubs). Types outside the family are outside the claim.", ref="§2 C16")
CHECKS["C03"] = dict(engine="crosshair", technique="CrossHair (symbolic execution of Python with z3) on PEP-316 round-trip conditions over models emitted by the real generator and the generated package's own converter; leaves, presence flags and list lengths symbolic",
   text="Models generated this run from the template family T_model (camelCase / snake_case / kebab-case / keyword-like / colliding-after-sanitisation names; nested object, list of object, typed map, nullable, allOf child; date-time, date, uuid, byte, number, boolean; string and integer enums): for every subset of optional properties and all symbolic leaf values CrossHair decides that unstructure(structure(doc)) equals doc up to the tolerated null/empty-container difference, under two warm-up histories of the converter.",
   note="Same trusted base and stubs as C16. Recursive models (Tree) are not covered: CrossHair reports NotDeterministic inside cattrs' handling of List[ForwardRef] (stated in DESIGN.md). Schemas outside T_model are outside the claim.", ref="§2 C03")
CHECKS["C14"] = dict(engine="crosshair", technique="CrossHair (symbolic execution of Python with z3) on PEP-316 conditions over union aliases emitted by the real generator and the generated package's own _structure_union; variant choice, presence flags and leaves symbolic",
   text="Union aliases generated this run from the template family U (discriminator with mapping, also nullable; disjoint required fields; one variant's required set a subset of another's, in both variant orders; all-optional variants; int|str; str|object; list|object; union-typed and nullable-union fields of a model): CrossHair decides for every symbolic choice of variant, optional keys and leaf values that encode(decode(payload)) == payload with the right variant class, that an unmapped discriminator value raises, and that a payload of a mapped variant that fails to decode raises instead of being retried as another variant.",
   note="Same trusted base and stubs as C16. A list of unions as a model field is not covered (CrossHair fails inside cattrs' list dispatch on a symbolic element; natively the same input passes). Unions outside U are outside the claim.", ref="§2 C14")
CHECKS["C05"] = dict(engine="crosshair", technique="CrossHair (symbolic execution of Python with z3) on PEP-316 conditions over endpoint methods emitted by the real generator, driven against a stub transport returning conforming bodies built from symbolic leaves",
   text="Endpoint methods generated this run from the template family T_resp (200 model, list of model, alias to list, int and string primitives, 201 only, 200+201 with different models, 202, 204, 200+204, text/plain, streamed octet-stream, two content types on one response, default with content, union body): for all symbolic leaf values, presence flags, list lengths, declared success statuses and Content-Type spellings CrossHair decides that the call issues one request and returns a value of the right type whose re-serialisation equals the body, None for no-content, the text for text/plain, the chunks in order for the byte stream, and a value conforming to the annotation for the primary response.",
   note="Same trusted base and stubs as C16. SSE/NDJSON streaming is C18's subject (json.loads is C code). The listed known finding (secondary 2xx responses are not part of the return annotation) is probed by a separate kf_ condition. Shapes outside T_resp are outside the claim.", ref="§2 C05")
NA = {
 "C01": "not applicable to solver-based checking: the observation is compile()/import of a whole emitted file tree for a whole symbolic document; no kernel small enough to encode (identifier and lexical kernels are decided under C20/C15)",
 "C09": "not applicable: quantifies over hash seeds, processes, clocks and existing file trees; the deciding observation is byte equality of directory trees - nothing for a solver to decide",
 "C10": "not applicable: a fault-injection property over filesystem effects (tempfile, rmtree, write_text); the observable is a before/after snapshot of a real directory",
 "C12": "not applicable: absence of an import over all emitted files and byte identity of copied files - a scan of artefacts, not a computation over inputs",
}
def main():
    checks = []
    for pid, c in sorted(CHECKS.items()):
        checks.append({
            "property_id": pid,
            "quick_cmd": "./check %s --tier quick" % pid,
            "thorough_cmd": "./check %s --tier thorough" % pid,
            "evidence_file": "/verif/evidence/%s.json" % pid,
            "replay_cmd_template": "./check %s --replay {path}" % pid,
            "engine": c["engine"],
            "level_claimed": {"category": "model_checking", "text": c["text"], "design_ref": c["ref"]},
            "level_note": c["note"],
            "technique": c["technique"],
        })
    props = [json.loads(l)["id"] for l in open(os.path.join(HERE, "properties.jsonl"))]
    na = []
    for pid in props:
        if pid not in CHECKS:
            na.append({"property_id": pid, "reason": NA.get(pid, "check not built yet in this round (see DESIGN.md for the plan); not claimed")})
    man = {
        "version": 1,
        "setup_cmd": "./setup.sh",
        "hooks": {"guard": "PYOPENAPI_GEN_VERIF", "enable": "no source hooks: instrumentation is an import hook inside the checks (lib/symx/hook.py); the guard variable is reserved and unused",
                  "baseline_off_cmd": "cd /repo && /venv/bin/python -m pytest -ra -q -p no:cacheprovider --timeout=900 --continue-on-collection-errors",
                  "source_commits": [], "add_only": True},
        "engines": [
            {"name": "symx", "path": "lib/symx", "serves_properties": [p for p, c in CHECKS.items() if c["engine"] == "symx" or "symx" in c["engine"]], "kind_free_text": E1},
            {"name": "crosshair", "path": "lib/xh.py", "serves_properties": [p for p, c in CHECKS.items() if "crosshair" in c["engine"]], "kind_free_text": E2},
        ],
        "checks": checks,
        "not_applicable": na,
        "notes": "Solver-based checking of the real code. Exit 0 = held on everything explored (INCONCLUSIVE lines list obligations the solver/engine could not decide); exit 1 = VIOLATION reproduced on the uninstrumented code; exit 3 = harness error (translator divergence, non-reproducing counterexample). Known findings: known_findings.json.",
    }
    json.dump(man, open(os.path.join(HERE, "MANIFEST.json"), "w"), indent=1)
if __name__ == "__main__":
    main()
