#!/usr/bin/env python3
"""Writes the prompt given to an independent sub-agent that is asked for seeded property-breaking changes.
usage: seed_prompt.py <PROP> <worktree> [n]  -> prints the prompt (the agent gets nothing from /verif but the property text)"""
import json, sys, os
HERE = os.path.dirname(os.path.dirname(os.path.abspath(__file__)))
props = {json.loads(l)['id']: json.loads(l) for l in open(os.path.join(HERE, 'properties.jsonl'))}
TMPL = """You are helping test a verification framework by producing realistic *regressions* (seeded bugs) in a Python project. Work ONLY inside the scratch git worktree {wt} (a checkout of the project mindhiveoy/pyopenapi_gen, a Python OpenAPI client generator). Do NOT read or touch /repo, /verif or any other directory outside {wt} (the shared interpreter /venv/bin/python and /tmp/seed/baseline.py are the only outside things you may use). Never commit anything; leave your change as files as described below.

The property the project is supposed to satisfy:

  {pid} - {title}
  {statement}
  (Quantified over: {quant})

Your task: produce {n} DIFFERENT, independent source changes (mutations) to files under {wt}/src/pyopenapi_gen, each of which
  (a) BREAKS the property above for some inputs,
  (b) still compiles/imports, and the project's existing test-suite still passes exactly as before: run `python3 /tmp/seed/baseline.py {wt}` (takes ~1-2 min, uses 16 cores; it must print `baseline tests not passing: 0`),
  (c) is REALISTIC - the kind of thing a maintainer could plausibly commit (a refactor gone slightly wrong, a too-narrow condition, a changed regex, an off-by-one, a forgotten branch, a changed default, an 'optimisation') - not sabotage like `if x == "magic"`.
  (d) needs something SPECIFIC to manifest - an unusual input, a particular combination / order / sequence of operations, a boundary value, or two sites that each look fine alone - NOT something ordinary use would expose at once. Subtle is better than blatant. The mutations should differ from each other in which function / mechanism they touch.

For each mutation k = 1..{n} create the directory {wt}/_seed/m<k>/ containing:
  - patch.diff : `git diff` output (relative to the worktree HEAD, only files under src/) of that mutation ALONE (so `git apply patch.diff` on a clean checkout applies it),
  - demo.py : a small self-contained program run as `PYTHONPATH={wt}/src /venv/bin/python demo.py` that exits 0 on the ORIGINAL code and exits non-zero (assertion failure with a clear message) WITH the mutation applied; it must exercise the real project code (import pyopenapi_gen...), and demonstrate the property violation as a user would observe it,
  - notes.md : which function you changed, why it breaks the property, what specific input/condition is needed for it to manifest, and the exact commands you ran with their results (baseline run with the mutation: must be 0 not passing; demo on original: exit 0; demo with mutation: non-zero).

Procedure per mutation: start from a clean tree (`git -C {wt} checkout -- src`), make the edit, run the baseline, run the demo (must fail), save `git -C {wt} diff -- src > _seed/m<k>/patch.diff`, then `git -C {wt} checkout -- src` and confirm the demo passes on the original. If a mutation makes an existing test fail, refine or replace it - do not edit tests. Use `PYTHONPATH={wt}/src /venv/bin/python` to run code so that your worktree's sources (not the installed ones) are imported; verify with `python -c "import pyopenapi_gen; print(pyopenapi_gen.__file__)"`. Note: the original code may already violate the property for some inputs; keep your demos clear of those (the demo must pass on the original).

Start by reading the code the property depends on (hint: {files}). When done, leave the worktree clean (no applied mutation) and reply with a short summary listing each mutation (file/function, trigger condition, and the verification command results)."""
pid, wt = sys.argv[1], sys.argv[2]
n = int(sys.argv[3]) if len(sys.argv) > 3 else 3
p = props[pid]
print(TMPL.format(wt=wt, pid=pid, title=p['title'], statement=p['statement'], quant=p['quantifier']['text'], n=n, files=', '.join(p['anchors']['files'][:8])))
