"""Class / method-signature view of generated source, on top of the reference lexer (pylex) — works on symbolic text.

`classes(text)` lexes a module text (str or SymStr) and returns {class name: ClassView}; a ClassView has the ordered list of
its methods, each with decorators, `async` flag, signature tokens (between the parentheses, and the return annotation),
and body facts (contains `yield`, is a `...` stub, first real statement is `raise NotImplementedError(`).
Tokens carry their text: identifiers and numbers as tuples of characters (ints or z3 terms, so two signatures can be
compared by the solver), operators as one-character strings, string literals by value.
"""
from __future__ import annotations

import pylex
from symx.core import SymStr, is_sym, s_and, sb


class Tok:
    __slots__ = ("kind", "text")

    def __init__(self, kind, text):
        self.kind, self.text = kind, text

    def is_op(self, ch):
        return self.kind == "OP" and self.text == ch

    def is_kw(self, kw):
        return self.kind == "KW" and self.text == kw

    def __repr__(self):
        return "%s:%s" % (self.kind, show(self.text))


def show(t):
    if isinstance(t, tuple):
        return "".join(chr(c) if isinstance(c, int) else "?" for c in t)
    return str(t)


def tokens(text):
    res = pylex.lex_text(text)
    if not res.ok:
        return None, res.err
    strs = {idx: val for idx, _pfx, val in res.strings}
    out = []
    for i, t in enumerate(res.skeleton):
        k = t[0]
        if k == "NAME":
            if t[1] is not None:
                out.append(Tok("KW", t[1]))
            else:
                out.append(Tok("NAME", res.names[i]))
        elif k == "NUM":
            out.append(Tok("NUM", res.names.get(i, ())))
        elif k == "STR":
            v = strs.get(i)
            out.append(Tok("STR", tuple(v) if v is not None else None))
        elif k == "OP":
            out.append(Tok("OP", t[1]))
        else:
            out.append(Tok(k, None))
    return out, None


class Method:
    def __init__(self):
        self.name = None  # tuple of chars
        self.decorators = []  # list of token lists
        self.is_async = False
        self.params = []  # tokens between the outer parentheses, trailing comma dropped
        self.returns = []  # tokens of the return annotation
        self.has_yield = False
        self.is_stub = False
        self.raises_not_implemented = False

    def __repr__(self):
        return "%s%sdef %s(%s) -> %s%s" % ("".join("@%s " % "".join(show(t.text) for t in d) for d in self.decorators), "async " if self.is_async else "",
                                         show(self.name), " ".join(show(t.text) for t in self.params), " ".join(show(t.text) for t in self.returns),
                                         " [yield]" if self.has_yield else "")


class ClassView:
    def __init__(self, name):
        self.name = name
        self.methods = []


class ParseError(Exception):
    pass


def _skip_block(toks, i):
    """toks[i] is the first token after a ':' that opens a suite.  Returns (index after the suite, body tokens)."""
    if toks[i].kind != "NEWLINE":
        j = i
        while toks[j].kind != "NEWLINE":
            j += 1
        return j + 1, toks[i:j]
    i += 1
    if toks[i].kind != "INDENT":
        raise ParseError("expected an indented block")
    depth = 1
    j = i + 1
    while depth:
        if toks[j].kind == "INDENT":
            depth += 1
        elif toks[j].kind == "DEDENT":
            depth -= 1
        j += 1
    return j, toks[i + 1:j - 1]


def _bracket_end(toks, i):
    """toks[i] is an opening bracket; index of the matching closing one."""
    depth = 0
    while True:
        t = toks[i]
        if t.kind == "OP" and t.text in "([{":
            depth += 1
        elif t.kind == "OP" and t.text in ")]}":
            depth -= 1
            if depth == 0:
                return i
        i += 1


def _parse_def(toks, i, decorators):
    m = Method()
    m.decorators = decorators
    if toks[i].is_kw("async"):
        m.is_async = True
        i += 1
    if not toks[i].is_kw("def"):
        raise ParseError("expected def")
    i += 1
    if toks[i].kind not in ("NAME", "KW"):
        raise ParseError("expected a method name")
    m.name = toks[i].text if toks[i].kind == "NAME" else tuple(ord(c) for c in toks[i].text)
    i += 1
    if not toks[i].is_op("("):
        raise ParseError("expected (")
    e = _bracket_end(toks, i)
    inner = toks[i + 1:e]
    if inner and inner[-1].is_op(","):
        inner = inner[:-1]
    m.params = inner
    i = e + 1
    if toks[i].is_op("-") and toks[i + 1].is_op(">"):
        j = i + 2
        depth = 0
        while not (depth == 0 and toks[j].is_op(":")):
            if toks[j].kind == "OP" and toks[j].text in "([{":
                depth += 1
            elif toks[j].kind == "OP" and toks[j].text in ")]}":
                depth -= 1
            j += 1
        m.returns = toks[i + 2:j]
        i = j
    if not toks[i].is_op(":"):
        raise ParseError("expected : after the signature")
    i, body = _skip_block(toks, i + 1)
    m.has_yield = any(t.is_kw("yield") for t in body)
    stmts = [t for t in body if t.kind not in ("NEWLINE", "INDENT", "DEDENT")]
    m.is_stub = len(stmts) == 3 and all(t.is_op(".") for t in stmts)
    k = 0
    if stmts and stmts[0].kind == "STR":
        k = 1
    m.raises_not_implemented = (len(stmts) > k + 2 and stmts[k].is_kw("raise") and stmts[k + 1].kind == "NAME"
                                and show(stmts[k + 1].text) == "NotImplementedError" and all(isinstance(c, int) for c in stmts[k + 1].text)
                                and stmts[k + 2].is_op("("))
    return i, m


def classes(text):
    """-> ({class name (str): ClassView}, error).  Class names must be concrete in the text positions they occupy or are
    returned under their shown form (symbolic characters as '?')."""
    toks, err = tokens(text)
    if toks is None:
        return None, "does not lex: %s" % err
    out = {}
    try:
        i = 0
        n = len(toks)
        while i < n:
            t = toks[i]
            if t.is_kw("class"):
                cname = toks[i + 1].text
                j = i + 2
                if toks[j].is_op("("):
                    j = _bracket_end(toks, j) + 1
                if not toks[j].is_op(":"):
                    raise ParseError("expected : after class header")
                end, body = _skip_block(toks, j + 1)
                cv = ClassView(cname)
                out[show(cname)] = cv
                k = 0
                decos = []
                while k < len(body):
                    b = body[k]
                    if b.is_op("@"):
                        e = k + 1
                        while body[e].kind != "NEWLINE":
                            e += 1
                        decos.append(body[k + 1:e])
                        k = e + 1
                        continue
                    if b.is_kw("def") or (b.is_kw("async") and body[k + 1].is_kw("def")):
                        k, m = _parse_def(body + [Tok("NEWLINE", None)], k, decos)
                        decos = []
                        cv.methods.append(m)
                        continue
                    k += 1
                i = end
                continue
            i += 1
    except (ParseError, IndexError) as ex:
        return None, "does not parse: %r" % (ex,)
    return out, None


def tok_eq(a, b):
    """Symbolic equality of two token lists (SymBool / bool)."""
    if len(a) != len(b):
        return False
    conj = []
    for x, y in zip(a, b):
        if x.kind != y.kind:
            # a keyword-valued identifier on one side can only equal the same keyword on the other
            return False
        if x.kind in ("NAME", "NUM", "STR"):
            if x.text is None or y.text is None:
                if x.text is not y.text:
                    return False
                continue
            r = chars_eq(x.text, y.text)
            if r is False:
                return False
            if r is not True:
                conj.append(r)
        elif x.text != y.text:
            return False
    if not conj:
        return True
    return s_and(*conj)


def chars_eq(a, b):
    if len(a) != len(b):
        return False
    r = SymStr(a).eq_expr(SymStr(b))
    if r is True or r is False:
        return r
    return sb(r)


# ------------------------------------------------------------------ dataclass bodies
class Field:
    def __init__(self, name, annotation, default):
        self.name, self.annotation, self.default = name, annotation, default  # char tuple, token list, token list | None

    def __repr__(self):
        return "%s: %s%s" % (show(self.name), " ".join(show(t.text) for t in self.annotation), "" if self.default is None else " = " + " ".join(show(t.text) for t in self.default))


def _statements(body):
    """split a suite's tokens into simple statements / (header, nested suite) pairs at indentation depth 0"""
    out, cur, i, depth = [], [], 0, 0
    while i < len(body):
        t = body[i]
        if t.kind == "OP" and t.text in "([{":
            depth += 1
        elif t.kind == "OP" and t.text in ")]}":
            depth -= 1
        if t.kind == "NEWLINE" and depth == 0:
            if i + 1 < len(body) and body[i + 1].kind == "INDENT":
                d, j = 1, i + 2
                while d:
                    if body[j].kind == "INDENT":
                        d += 1
                    elif body[j].kind == "DEDENT":
                        d -= 1
                    j += 1
                out.append((cur, body[i + 2:j - 1]))
                cur, i = [], j
                continue
            if cur:
                out.append((cur, None))
            cur = []
        elif t.kind not in ("INDENT", "DEDENT"):
            cur.append(t)
        i += 1
    if cur:
        out.append((cur, None))
    return out


def dataclass_view(text, class_name):
    """-> ({'fields': [Field], 'meta': {assignment name: [(key chars, value chars)]}}, error) for `class <class_name>` of the text"""
    toks, err = tokens(text)
    if toks is None:
        return None, "does not lex: %s" % err
    try:
        i = 0
        while i < len(toks):
            if toks[i].is_kw("class") and toks[i + 1].kind == "NAME" and show(toks[i + 1].text) == class_name:
                j = i + 2
                if toks[j].is_op("("):
                    j = _bracket_end(toks, j) + 1
                _end, body = _skip_block(toks, j + 1)
                fields, meta = [], {}
                for stmt, suite in _statements(body):
                    if suite is not None:
                        if stmt and stmt[0].is_kw("class") and show(stmt[1].text) == "Meta":
                            for st2, _s2 in _statements(suite):
                                if len(st2) >= 3 and st2[0].kind == "NAME" and st2[1].is_op("=") and st2[2].is_op("{"):
                                    pairs, k = [], 3
                                    while k < len(st2) and not st2[k].is_op("}"):
                                        if st2[k].kind == "STR" and st2[k + 1].is_op(":") and st2[k + 2].kind == "STR":
                                            pairs.append((st2[k].text, st2[k + 2].text))
                                            k += 3
                                        else:
                                            k += 1
                                    meta[show(st2[0].text)] = pairs
                        continue
                    if len(stmt) >= 3 and stmt[0].kind == "NAME" and stmt[1].is_op(":"):
                        depth, k = 0, 2
                        while k < len(stmt) and not (depth == 0 and stmt[k].is_op("=")):
                            if stmt[k].kind == "OP" and stmt[k].text in "([{":
                                depth += 1
                            elif stmt[k].kind == "OP" and stmt[k].text in ")]}":
                                depth -= 1
                            k += 1
                        fields.append(Field(stmt[0].text, stmt[2:k], stmt[k + 1:] if k < len(stmt) else None))
                return {"fields": fields, "meta": meta}, None
            i += 1
    except (ParseError, IndexError) as ex:
        return None, "does not parse: %r" % (ex,)
    return None, "class %s not found" % class_name
