"""Shared reporting: evidence files, known findings, replay files, exit codes."""
from __future__ import annotations

import hashlib
import json
import os
import sys
import time

VERIF = os.path.dirname(os.path.dirname(os.path.abspath(__file__)))
REPO = os.environ.get("VERIF_REPO", "/repo")
SRC = os.path.join(REPO, "src", "pyopenapi_gen")
if REPO != "/repo":
    # side run against a scratch copy of the repository (seeded-change trials): nothing registered is touched
    _tag = hashlib.sha256(REPO.encode()).hexdigest()[:10]
    WORK = os.path.join(VERIF, ".work", "alt-" + _tag)
    EVID = os.path.join(WORK, "evidence")
    REPLAYS = os.path.join(WORK, "replays")
else:
    WORK = os.path.join(VERIF, ".work")
    EVID = os.path.join(VERIF, "evidence")
    REPLAYS = os.path.join(VERIF, "replays")
KNOWN_FILE = os.path.join(VERIF, "known_findings.json")

EXIT_OK, EXIT_VIOLATION, EXIT_HARNESS = 0, 1, 3


def load_known(prop):
    """Open known findings of a property: {label: what}.  `fixed` entries suppress nothing."""
    try:
        data = json.load(open(KNOWN_FILE))
    except FileNotFoundError:
        return {}
    out = {}
    for ent in data.get("findings", []):
        if ent.get("property") == prop and ent.get("status") == "open":
            out[ent["label"]] = ent["what"]
    return out


def sha_of_source(paths):
    h = {}
    for p in paths:
        try:
            h[os.path.relpath(p, REPO)] = hashlib.sha256(open(p, "rb").read()).hexdigest()[:16]
        except OSError:
            h[p] = "missing"
    return h


def func_source_sha(modname, qualname):
    """sha256 of the source text of module:qualname as found in /repo now."""
    import importlib
    import inspect

    try:
        m = importlib.import_module(modname)
        o = m
        for part in qualname.split("."):
            o = getattr(o, part)
        o = getattr(o, "__func__", o)
        o = getattr(o, "__wrapped__", o)
        src = inspect.getsource(o)
        return hashlib.sha256(src.encode()).hexdigest()[:16]
    except Exception as ex:  # noqa
        return "unavailable:%s" % type(ex).__name__


class Report:
    def __init__(self, prop, tier):
        self.prop = prop
        self.tier = tier
        self.t0 = time.time()
        self.seed = int(os.environ.get("VERIF_SEED", "0") or 0)
        self.known = load_known(prop)
        self.obligations = []  # dict per obligation
        self.violations = []  # dict(obligation, inputs, result, detail)
        self.known_hits = {}  # label -> dict(count, samples)
        self.inconclusive = []
        self.harness_errors = []
        self.samples = []
        self.functions = {}
        self.bounds = {}
        self.stubs = []
        self.assumptions = []
        self.states = 0
        self.transitions = 0
        self.validated = 0
        self.queries = 0
        self.solver_s = 0.0
        self.xh_conditions = 0
        self.xh_confirmed = 0
        self.engine_notes = []

    # ---- E1
    def add_symx(self, st, functions=(), bounds=None):
        j = st.to_json()
        if bounds:
            j["bounds"] = bounds
        self.obligations.append(j)
        self.states += st.paths
        self.transitions += st.decisions
        self.validated += st.validated
        self.queries += st.checks
        self.solver_s += st.solver_s
        for v in st.violations:
            self.violations.append(dict(v, obligation=st.name))
        for label, recs in st.known.items():
            if label in self.known:
                ent = self.known_hits.setdefault(label, {"count": 0, "samples": []})
                ent["count"] += st.known_counts.get(label, 0)
                if len(ent["samples"]) < 3:
                    ent["samples"].extend(dict(r, obligation=st.name) for r in recs[: 3 - len(ent["samples"])])
            else:
                # classified by a predicate that is not (or no longer) listed as open: a real violation
                for r in recs:
                    self.violations.append(dict(r, obligation=st.name, unlisted_label=label))
        for m in st.inconclusive:
            self.inconclusive.append("%s: %s" % (st.name, m))
        for m in st.harness_errors:
            self.harness_errors.append("%s: %s" % (st.name, m))
        if len(self.samples) < 12:
            for s in st.samples[:2]:
                self.samples.append(dict(s, obligation=st.name))
        if st.reached == 0 and not st.inconclusive and not st.harness_errors:
            self.harness_errors.append("%s: vacuous (no path reached the assertion)" % st.name)
        for f in functions:
            if f not in self.functions:
                mod, qn = f.split(":")
                self.functions[f] = func_source_sha(mod, qn)

    # ---- E2
    def add_xh(self, res):
        """res: dict from xh.run_condition"""
        self.obligations.append(res)
        self.xh_conditions += 1
        self.solver_s += res.get("wall_s", 0.0)
        self.states += 1
        v = res["verdict"]
        if v == "confirmed":
            self.xh_confirmed += 1
            self.transitions += 1
        elif v == "violation":
            label = res.get("known_label")
            rec = {"obligation": res["obligation"], "inputs": res.get("cex"), "detail": res.get("detail"), "result": res.get("replay_result")}
            if label is not None and label in self.known:
                ent = self.known_hits.setdefault(label, {"count": 0, "samples": []})
                ent["count"] += 1
                if len(ent["samples"]) < 3:
                    ent["samples"].append(rec)
            else:
                if label is not None:
                    rec["unlisted_label"] = label
                self.violations.append(rec)
        elif v == "harness_error":
            self.harness_errors.append("%s: %s" % (res["obligation"], res.get("detail")))
        else:
            self.inconclusive.append("%s: %s" % (res["obligation"], res.get("detail", v)))
        if len(self.samples) < 12:
            self.samples.append({"obligation": res["obligation"], "verdict": v, "line": res.get("line_text", "")[:300]})

    def note_functions(self, funcs):
        for f in funcs:
            if f not in self.functions:
                mod, qn = f.split(":")
                self.functions[f] = func_source_sha(mod, qn)

    # ---- finish
    def finish(self):
        os.makedirs(EVID, exist_ok=True)
        os.makedirs(REPLAYS, exist_ok=True)
        wall = time.time() - self.t0
        replay_paths = []
        for v in self.violations:
            blob = json.dumps(v, sort_keys=True, default=repr)
            h = hashlib.sha256(blob.encode()).hexdigest()[:12]
            path = os.path.join(REPLAYS, "%s-%s.json" % (self.prop, h))
            with open(path, "w") as fh:
                json.dump({"property": self.prop, "violation": v}, fh, indent=1, default=repr)
            replay_paths.append(path)
        cov = {
            "states": max(self.states, 0),
            "transitions": max(self.transitions, 0),
            "traces_validated_against_impl": self.validated,
            "samples": self.samples[:12] or [{"note": "no path completed"}],
            "evaluations": len(self.obligations),
            "distinct_nontrivial": sum(
                1
                for o in self.obligations
                if (o.get("reached_assertion", 0) > 0 and not o.get("inconclusive") and not o.get("harness_errors"))
                or o.get("verdict") == "confirmed"
            ),
            "rule": "one evaluation = one solver-decided obligation (symx: all symbolic paths of a kernel at one bound; "
            "CrossHair: one PEP-316 condition). distinct_nontrivial = obligations that reached their assertion on at least "
            "one feasible path (reachability witness) and ended conclusive.",
            "exhaustive": not self.inconclusive and not self.harness_errors,
            "explanation": "states = symbolic paths explored (each ends in a z3 query over all inputs of its path class); "
            "transitions = branch decisions taken; traces_validated_against_impl = path witnesses re-run on the "
            "uninstrumented code from /repo and compared with the symbolic result.",
            "functions_encoded": self.functions,
            "bounds": self.bounds,
            "queries": self.queries,
            "solver_s": round(self.solver_s, 3),
            "crosshair_conditions": self.xh_conditions,
            "crosshair_confirmed": self.xh_confirmed,
            "obligations_detail": self.obligations[:400],
            "inconclusive": self.inconclusive[:50],
            "harness_errors": self.harness_errors[:20],
            "known_findings_reproduced": {k: v["count"] for k, v in self.known_hits.items()},
            "stubs": self.stubs,
            "engine_notes": self.engine_notes,
        }
        ev = {
            "property_id": self.prop,
            "tier": self.tier,
            "seed": self.seed,
            "level": "model_checking",
            "coverage": cov,
            "assumptions": self.assumptions,
            "wall_s": round(wall, 2),
            "violations": len(self.violations),
        }
        if cov["states"] < 1:
            cov["states"] = 1
        if cov["transitions"] < 1:
            cov["transitions"] = 1
        with open(os.path.join(EVID, "%s.json" % self.prop), "w") as fh:
            json.dump(ev, fh, indent=1, default=repr)
        # ---- stdout contract
        for label, what in self.known.items():
            hit = self.known_hits.get(label)
            if hit:
                s = hit["samples"][0] if hit["samples"] else {}
                print("KNOWN-FINDING: property=%s %s [label=%s; reproduced %d times this run; e.g. %s]" % (
                    self.prop, what, label, hit["count"], json.dumps(s.get("inputs"), default=repr)[:160]))
            else:
                print("NOTE: listed finding not reproduced in this run (outside this tier's bounds or fixed): property=%s label=%s" % (self.prop, label))
        for m in self.inconclusive[:30]:
            print("INCONCLUSIVE property=%s %s" % (self.prop, m[:400]))
        for m in self.harness_errors[:10]:
            print("HARNESS-ERROR property=%s %s" % (self.prop, m[:1500]))
        shown = {}
        for v, p in zip(self.violations, replay_paths):
            shown[v.get("obligation")] = shown.get(v.get("obligation"), 0) + 1
            if shown[v.get("obligation")] > 3 or len(shown) > 25:
                continue
            print("VIOLATION property=%s replay=%s" % (self.prop, p))
            print("  obligation=%s inputs=%s detail=%s" % (v.get("obligation"), json.dumps(v.get("inputs"), default=repr)[:300], str(v.get("detail"))[:300]))
        print(
            "SUMMARY property=%s tier=%s obligations=%d paths=%d decisions=%d queries=%d validated=%d xh=%d/%d violations=%d known=%d inconclusive=%d harness_errors=%d wall=%.1fs"
            % (self.prop, self.tier, len(self.obligations), self.states, self.transitions, self.queries, self.validated, self.xh_confirmed,
               self.xh_conditions, len(self.violations), len(self.known_hits), len(self.inconclusive), len(self.harness_errors), wall)
        )
        sys.stdout.flush()
        if self.violations:
            return EXIT_VIOLATION
        if self.harness_errors:
            return EXIT_HARNESS
        return EXIT_OK
