"""Entry point: ./check <ID> [--tier quick|thorough] [--replay path]"""
import argparse
import importlib
import os
import sys
import traceback

sys.setrecursionlimit(20000)
import logging

logging.disable(logging.CRITICAL)  # the repo's own log output is not part of any property
import warnings

warnings.simplefilter('ignore')


def main():
    ap = argparse.ArgumentParser()
    ap.add_argument("prop")
    ap.add_argument("--tier", default=os.environ.get("VERIF_TIER", "quick"), choices=["quick", "thorough"])
    ap.add_argument("--replay")
    ap.add_argument("--only", help="substring filter on obligation names (debugging)")
    a = ap.parse_args()
    mod = importlib.import_module("props.%s" % a.prop.lower())
    if a.replay:
        sys.exit(mod.replay(a.replay))
    from common import Report

    rep = Report(a.prop.upper(), a.tier)
    try:
        import contextlib
        import io

        from symx import selftest

        buf = io.StringIO()
        with contextlib.redirect_stdout(buf):
            bad = selftest.main()
        if bad:
            rep.harness_errors.append("SymStr models disagree with CPython: " + buf.getvalue()[:600])
        rep.engine_notes.append("SymStr method models compared with CPython on 631 strings before the run: " + buf.getvalue().strip().splitlines()[-1])
        mod.run(a.tier, rep, only=a.only)
    except BaseException as ex:  # never let a crash look like a pass
        rep.harness_errors.append("check crashed: %r\n%s" % (ex, traceback.format_exc(limit=12)))
    sys.exit(rep.finish())


if __name__ == "__main__":
    main()
