"""Support code imported by CrossHair harness files (kept tiny: it runs under CrossHair's tracing)."""
from __future__ import annotations

import importlib


def prepare_cattrs(modname):
    """CrossHair patches `eval`; cattrs.gen calls eval(code, globs) and expects the compiled function in `globs`.
    Rebind cattrs.gen.eval to an untraced real eval, then import the converter module."""
    import builtins

    import cattrs.gen as g
    from crosshair.tracers import NoTracing

    real_eval = builtins.eval

    def untraced_eval(code, globs=None, locs=None):
        with NoTracing():
            return real_eval(code, globs, globs if locs is None else locs)

    g.eval = untraced_eval
    try:
        import cattrs.gen._shared as sh  # noqa

        if hasattr(sh, "eval"):
            sh.eval = untraced_eval
    except Exception:  # noqa
        pass
    mod = importlib.import_module(modname)
    # The converter regenerates (evals) the per-class structure/unstructure functions on EVERY call; code generation under
    # CrossHair's tracer is slow and not replay-deterministic (cattrs numbers its generated sources).  The harness memoises
    # the two factories per class: same functions, generated once during the concrete warm-up.
    for name in ("_make_dataclass_structure_fn", "_make_dataclass_unstructure_fn"):
        real = getattr(mod, name)
        cache = {}

        def memo(cls, _real=real, _cache=cache):
            if cls not in _cache:
                _cache[cls] = _real(cls)
            return _cache[cls]

        setattr(mod, name, memo)
    # Hook registration is repeated on every structure/unstructure call; each repetition clears cattrs' dispatch caches and
    # makes cattrs regenerate (eval) its container functions, which is again not replay-deterministic under the tracer.
    # Run each top-level registration once per class (the concrete warm-up); later calls are no-ops.
    for name in ("_register_structure_hooks_recursively", "_register_unstructure_hooks_recursively"):
        real = getattr(mod, name)
        done = set()

        def once(cls, visited=None, _real=real, _done=done):
            if visited is None:
                if cls in _done:
                    return None
                _done.add(cls)
            return _real(cls, visited)

        setattr(mod, name, once)
    return mod


def is_json_data(x, depth=0):
    """pure-Python 'is JSON data' predicate (no json.dumps: that is C code and would realise symbolic values)"""
    if x is None or isinstance(x, (bool, int, float, str)):
        return True
    if depth > 12:
        return False
    if isinstance(x, list):
        return all(is_json_data(v, depth + 1) for v in x)
    if isinstance(x, dict):
        return all(isinstance(k, str) and is_json_data(v, depth + 1) for k, v in x.items())
    return False
