"""In-memory file system + pathlib.Path / tempfile / shutil / os.path stand-ins whose path components may be symbolic
strings (symx SymStr).  Used where the real code's file-system orchestration is the kernel (C10, C09): the instrumented
code runs against this model, the uninstrumented code runs against the REAL file system in a scratch directory, and the
two sets of observed effects are compared on every path (a wrong model is a harness error, not a verdict).

Paths are tuples of components; components are str or SymStr without '/' (callers keep '/' out of symbolic alphabets).
"""
from __future__ import annotations

from symx.core import SymStr, is_sym, join as sjoin


def ceq(a, b):
    """component equality -> bool (forks on symbolic characters)"""
    if isinstance(a, str) and isinstance(b, str):
        return a == b
    if len(a) != len(b):
        return False
    return bool(SymStr.lift(a) == b)


def peq(p, q):
    return len(p) == len(q) and all(ceq(x, y) for x, y in zip(p, q))


def pstarts(p, q):
    """p lies at or below q"""
    return len(p) >= len(q) and all(ceq(x, y) for x, y in zip(p, q))


def parse(s):
    """'/a/b' (str or SymStr) -> ('a', 'b')"""
    if isinstance(s, SPath):
        return s.parts
    if is_sym(s) and s.is_concrete():
        s = s.concrete()
    parts = s.split("/")
    return tuple(_simp(p) for p in parts if len(p) > 0)


def _simp(x):
    return x.simp() if is_sym(x) else x


def text_of(parts):
    if not parts:
        return "/"
    if any(is_sym(p) for p in parts):
        return "/" + sjoin("/", list(parts))
    return "/" + "/".join(parts)


class MemFS:
    def __init__(self):
        self.ent = []  # [parts, kind, content]
        self.log = []

    def _find(self, parts):
        for i, e in enumerate(self.ent):
            if peq(e[0], parts):
                return i
        return -1

    def exists(self, parts):
        return len(parts) == 0 or self._find(parts) >= 0

    def kind(self, parts):
        if len(parts) == 0:
            return "dir"
        i = self._find(parts)
        return self.ent[i][1] if i >= 0 else None

    def mkdir(self, parts, parents=False, exist_ok=False):
        k = self.kind(parts)
        if k is not None:
            if k == "dir" and exist_ok:
                return
            raise FileExistsError(text_of(parts))
        pk = self.kind(parts[:-1])
        if pk is None:
            if not parents:
                raise FileNotFoundError(text_of(parts))
            self.mkdir(parts[:-1], parents=True, exist_ok=True)
        elif pk != "dir":
            raise NotADirectoryError(text_of(parts))
        self.ent.append([tuple(parts), "dir", None])
        self.log.append(("mkdir", tuple(parts)))

    def write(self, parts, text):
        pk = self.kind(parts[:-1])
        if pk is None:
            raise FileNotFoundError(text_of(parts))
        if pk != "dir":
            raise NotADirectoryError(text_of(parts))
        i = self._find(parts)
        if i >= 0:
            if self.ent[i][1] == "dir":
                raise IsADirectoryError(text_of(parts))
            self.ent[i][2] = text
        else:
            self.ent.append([tuple(parts), "file", text])
        self.log.append(("write", tuple(parts)))

    def read(self, parts):
        i = self._find(parts)
        if i < 0:
            raise FileNotFoundError(text_of(parts))
        if self.ent[i][1] == "dir":
            raise IsADirectoryError(text_of(parts))
        return self.ent[i][2]

    def rmtree(self, parts):
        if self.kind(parts) is None:
            raise FileNotFoundError(text_of(parts))
        self.ent = [e for e in self.ent if not pstarts(e[0], parts)]
        self.log.append(("rmtree", tuple(parts)))

    def unlink(self, parts):
        i = self._find(parts)
        if i < 0:
            raise FileNotFoundError(text_of(parts))
        del self.ent[i]
        self.log.append(("unlink", tuple(parts)))

    def under(self, parts):
        return [e for e in self.ent if pstarts(e[0], parts) and len(e[0]) > len(parts)]

    def snapshot(self, root):
        """[(relative parts, kind, content)] below root"""
        n = len(root)
        return [(e[0][n:], e[1], e[2]) for e in self.under(root)]


class SPath:
    """pathlib.Path stand-in bound to a MemFS"""

    def __init__(self, fs, parts, absolute=True):
        self.fs, self.parts, self.absolute = fs, tuple(parts), absolute

    # construction
    def _with(self, parts):
        return SPath(self.fs, parts, self.absolute)

    def joinpath(self, *xs):
        parts = list(self.parts)
        for x in xs:
            if isinstance(x, SPath):
                if x.absolute:
                    parts = list(x.parts)
                else:
                    parts.extend(x.parts)
            else:
                if (isinstance(x, str) and x.startswith("/")) or (is_sym(x) and len(x) and bool(x.startswith("/"))):
                    parts = list(parse(x))
                else:
                    parts.extend(parse(x))
        return self._with(parts)

    def __truediv__(self, o):
        return self.joinpath(o)

    @property
    def parent(self):
        return self._with(self.parts[:-1]) if self.parts else self

    @property
    def parents(self):
        return [self._with(self.parts[:i]) for i in range(len(self.parts) - 1, -1, -1)]

    @property
    def name(self):
        return self.parts[-1] if self.parts else ""

    def resolve(self):
        return self

    def relative_to(self, other):
        o = parse(other)
        if not pstarts(self.parts, o):
            raise ValueError("path is not in the subpath of the other path")
        return SPath(self.fs, self.parts[len(o):], absolute=False)

    # comparison
    def __eq__(self, o):
        return isinstance(o, SPath) and self.absolute == o.absolute and peq(self.parts, o.parts)

    def __ne__(self, o):
        return not self.__eq__(o)

    def __hash__(self):
        return 0

    # file system
    def exists(self):
        return self.fs.exists(self.parts)

    def is_dir(self):
        return self.fs.kind(self.parts) == "dir"

    def is_file(self):
        return self.fs.kind(self.parts) == "file"

    def mkdir(self, parents=False, exist_ok=False, mode=0o777):
        self.fs.mkdir(self.parts, parents=parents, exist_ok=exist_ok)

    def write_text(self, text, *a, **k):
        self.fs.write(self.parts, text)

    def read_text(self, *a, **k):
        t = self.fs.read(self.parts)
        return t.replace("\r\n", "\n").replace("\r", "\n")

    def read_bytes(self):
        return self.fs.read(self.parts)

    def rglob(self, pat):
        assert pat == "*.py", pat
        out = []
        for e in self.fs.under(self.parts):
            last = e[0][-1]
            if e[1] == "file" and len(last) >= 3 and bool(SymStr.lift(last).endswith(".py") if is_sym(last) else last.endswith(".py")):
                out.append(SPath(self.fs, e[0]))
        return out

    # text
    def _sx_str_(self):
        if not self.absolute:
            return sjoin("/", list(self.parts)) if any(is_sym(p) for p in self.parts) else "/".join(self.parts)
        return text_of(self.parts)

    def __str__(self):
        t = self._sx_str_()
        if is_sym(t):
            if t.is_concrete():
                return t.concrete()
            raise TypeError("str() of a path with symbolic components reached uninstrumented code")
        return t

    __fspath__ = __str__

    def __repr__(self):
        return "SPath(%s)" % "/".join(p if isinstance(p, str) else "<sym>" for p in self.parts)


def path_factory(fs):
    def Path(x, *more):
        p = x if isinstance(x, SPath) else SPath(fs, parse(x))
        return p.joinpath(*more) if more else p

    return Path


class TempDirs:
    """tempfile stand-in: TemporaryDirectory() under /tmp of the MemFS, removed on exit"""

    def __init__(self, fs):
        self.fs, self.n = fs, 0
        fs.mkdir(("tmp",), exist_ok=True)

    def gettempdir(self):
        return "/tmp"

    def TemporaryDirectory(self, *a, **k):
        outer = self

        class _T:
            def __enter__(s):
                outer.n += 1
                s.parts = ("tmp", "T%d" % outer.n)
                outer.fs.mkdir(s.parts)
                return text_of(s.parts)

            def __exit__(s, *exc):
                if outer.fs.exists(s.parts):
                    outer.fs.rmtree(s.parts)
                return False

        return _T()


class Shutil:
    def __init__(self, fs):
        self.fs = fs

    def copy2(self, src, dst):
        self.fs.write(parse(dst), self.fs.read(parse(src)))
        return dst

    copy = copyfile = copy2

    def rmtree(self, p, ignore_errors=False):
        try:
            self.fs.rmtree(parse(p))
        except FileNotFoundError:
            if not ignore_errors:
                raise


def relpath_parts(target, start):
    """os.path.relpath on component tuples -> tuple of components ('..' for each level up)"""
    i = 0
    while i < len(target) and i < len(start) and ceq(target[i], start[i]):
        i += 1
    out = [".."] * (len(start) - i) + list(target[i:])
    return tuple(out) if out else (".",)


def join_norm(base, rel):
    """join + normalise: components of rel applied to base ('..' pops)"""
    parts = list(base)
    for c in rel:
        if isinstance(c, str) and c == "..":
            if parts:
                parts.pop()
        elif isinstance(c, str) and c in (".", ""):
            continue
        else:
            parts.append(c)
    return tuple(parts)


class OsPath:
    def __init__(self, fs):
        self.fs = fs

    def relpath(self, target, start="."):
        r = relpath_parts(parse(target), parse(start))
        return sjoin("/", list(r)) if any(is_sym(p) for p in r) else "/".join(r)

    def join(self, a, *ps):
        # only used with an absolute first argument and relative rest in the kernels served here
        parts = list(parse(a))
        for p in ps:
            parts = list(join_norm(parts, [_simp(c) for c in (p.split("/") if not isinstance(p, SPath) else p.parts)]))
        return text_of(tuple(parts))

    def exists(self, p):
        return self.fs.exists(parse(p))

    def isdir(self, p):
        return self.fs.kind(parse(p)) == "dir"

    def isfile(self, p):
        return self.fs.kind(parse(p)) == "file"

    def dirname(self, p):
        return text_of(parse(p)[:-1])

    def basename(self, p):
        ps = parse(p)
        return ps[-1] if ps else ""


class Os:
    def __init__(self, fs):
        self.path = OsPath(fs)
        self.sep = "/"
        self.fs = fs

    def makedirs(self, p, exist_ok=False, mode=0o777):
        self.fs.mkdir(parse(p), parents=True, exist_ok=exist_ok)
