"""Generate client packages from template specs with the REAL generator from /repo's current tree."""
from __future__ import annotations

import json
import os
import shutil
import sys

from common import WORK


def workdir(prop, fresh=False):
    d = os.path.join(WORK, prop.lower())
    if fresh and os.path.isdir(d):
        shutil.rmtree(d, ignore_errors=True)
    os.makedirs(d, exist_ok=True)
    return d


def generate(spec: dict, root: str, package: str, core_package=None, naming="operationId", spec_name=None):
    """Runs pyopenapi_gen.generate_client (force, no post-processing) and returns (files, error)."""
    from pyopenapi_gen import NamingStrategy, generate_client

    os.makedirs(root, exist_ok=True)
    sp = os.path.join(root, (spec_name or package.replace(".", "_")) + ".spec.json")
    with open(sp, "w") as fh:
        json.dump(spec, fh)
    strat = {"operationId": NamingStrategy.OPERATION_ID, "clean": NamingStrategy.CLEAN, "path": NamingStrategy.PATH}[naming]
    try:
        files = generate_client(sp, root, package, core_package=core_package, force=True, no_postprocess=True, naming_strategy=strat)
        return [str(f) for f in files], None
    except Exception as ex:  # noqa
        return [], "%s: %s" % (type(ex).__name__, ex)


def purge_modules(prefixes):
    for k in list(sys.modules):
        if any(k == p or k.startswith(p + ".") for p in prefixes):
            del sys.modules[k]


def base_spec(paths=None, schemas=None, title="T"):
    return {
        "openapi": "3.0.3",
        "info": {"title": title, "version": "1"},
        "paths": paths or {},
        "components": {"schemas": schemas or {}},
    }


def json_resp(ref=None, schema=None, desc="ok", ctype="application/json"):
    sch = {"$ref": "#/components/schemas/" + ref} if ref else schema
    if sch is None:
        return {"description": desc}
    return {"description": desc, "content": {ctype: {"schema": sch}}}
