"""Import-hook instrumentation: loads the repo's real source through an AST rewrite so that symbolic
values survive f-strings, calls into C-level helpers, membership tests, dict/set displays and subscripts.

The instrumented copy of package P is importable as `sxi_P` (absolute imports inside are rewritten), so the
uninstrumented P stays importable side by side for path-witness validation.
"""
from __future__ import annotations

import ast
import builtins
import collections as _collections
import importlib.abc
import importlib.machinery
import importlib.util
import json as _json
import keyword as _keyword
import logging as _logging
import os
import re as _re
import sys
import textwrap as _textwrap
import warnings as _warnings

import z3

from . import rx as RX
from .core import (
    Engine,
    SymBool,
    SymInt,
    SymStr,
    Unsupported,
    contains_any,
    is_sym,
    join,
    sb,
    s_or,
    PRED,
    zin,
    ranges_of,
    LINEBREAKS,
)

_real_dict, _real_set, _real_isinstance, _real_str, _real_len, _real_sorted = dict, set, isinstance, str, len, sorted
_real_repr, _real_int, _real_hash, _real_id, _real_bool = repr, int, hash, id, bool
_real_frozenset = frozenset
_real_list = list

PREFIX = "sxi_"


# ------------------------------------------------------------------ containers
class _M(type):
    def __instancecheck__(cls, o):
        return _real_isinstance(o, cls._base)

    def __subclasscheck__(cls, sub):
        return issubclass(sub, cls._base)


def _keq(k, key):
    """key equality inside SDict/SSet: forks when a symbolic string is involved."""
    tk, tkey = type(k), type(key)
    if tk is SymStr or tkey is SymStr:
        if _real_isinstance(k, (str, SymStr)) and _real_isinstance(key, (str, SymStr)):
            return _real_bool(SymStr.lift(k) == key)
        return False
    if tk is SymInt or tkey is SymInt:
        if _real_isinstance(k, (int, SymInt)) and _real_isinstance(key, (int, SymInt)):
            return _real_bool(k == key)
        return False
    if tk is tuple and tkey is tuple:
        return len(k) == len(key) and all(_keq(a, b) for a, b in zip(k, key))
    return k == key


class SDict(_real_dict, metaclass=_M):
    """dict with association-list semantics so symbolic keys work; insertion ordered like dict."""

    _base = _real_dict

    def __init__(self, *a, **k):
        _real_dict.__init__(self)
        self._kv = []
        if a:
            src = a[0]
            if type(src) is SDict:
                for kk, vv in src._kv:
                    self[kk] = vv
            elif hasattr(src, "keys"):
                for kk in src.keys():
                    self[kk] = src[kk]
            else:
                for kk, vv in src:
                    self[kk] = vv
        for kk, vv in k.items():
            self[kk] = vv

    def _find(self, key):
        for i, (k, v) in enumerate(self._kv):
            if k is key or _keq(k, key):
                return i
        return -1

    def __getitem__(self, key):
        i = self._find(key)
        if i < 0:
            if hasattr(type(self), "__missing__"):
                return type(self).__missing__(self, key)
            raise KeyError(key)
        return self._kv[i][1]

    def __setitem__(self, key, v):
        i = self._find(key)
        if i < 0:
            self._kv.append((key, v))
        else:
            self._kv[i] = (self._kv[i][0], v)

    def __delitem__(self, key):
        i = self._find(key)
        if i < 0:
            raise KeyError(key)
        del self._kv[i]

    def __contains__(self, key):
        return self._find(key) >= 0

    def __iter__(self):
        return iter([k for k, v in self._kv])

    def __reversed__(self):
        return iter([k for k, v in reversed(self._kv)])

    def __len__(self):
        return len(self._kv)

    def __bool__(self):
        return _real_bool(self._kv)

    def keys(self):
        return [k for k, v in self._kv]

    def values(self):
        return [v for k, v in self._kv]

    def items(self):
        return list(self._kv)

    def get(self, key, d=None):
        i = self._find(key)
        return d if i < 0 else self._kv[i][1]

    def setdefault(self, key, d=None):
        i = self._find(key)
        if i < 0:
            self._kv.append((key, d))
            return d
        return self._kv[i][1]

    def pop(self, key, *d):
        i = self._find(key)
        if i < 0:
            if d:
                return d[0]
            raise KeyError(key)
        return self._kv.pop(i)[1]

    def popitem(self):
        return self._kv.pop()

    def update(self, other=(), **k):
        if hasattr(other, "keys"):
            for kk in other.keys():
                self[kk] = other[kk]
        else:
            for kk, vv in other:
                self[kk] = vv
        for kk, vv in k.items():
            self[kk] = vv

    def copy(self):
        return SDict(self)

    def clear(self):
        self._kv = []

    def __or__(self, o):
        r = SDict(self)
        r.update(o)
        return r

    def __ior__(self, o):
        self.update(o)
        return self

    def __eq__(self, o):
        if not _real_isinstance(o, _real_dict):
            return False
        if len(o) != len(self):
            return False
        for k, v in self._kv:
            if type(o) is SDict:
                i = o._find(k)
                if i < 0 or not _real_bool(o._kv[i][1] == v):
                    return False
            else:
                if k not in o or not _real_bool(o[k] == v):
                    return False
        return True

    def __ne__(self, o):
        return not self.__eq__(o)

    __hash__ = None

    def __repr__(self):
        return "SDict(%r)" % (self._kv,)

    def __reduce__(self):
        return (SDict, (list(self._kv),))

    def __deepcopy__(self, memo):
        import copy

        r = SDict()
        for k, v in self._kv:
            r[k] = copy.deepcopy(v, memo)
        return r

    def __copy__(self):
        return SDict(self)

    @classmethod
    def fromkeys(cls, it, v=None):
        r = cls()
        for k in it:
            r[k] = v
        return r


class SDefaultDict(SDict):
    def __init__(self, factory=None, *a, **k):
        SDict.__init__(self, *a, **k)
        self.default_factory = factory

    def __missing__(self, key):
        if self.default_factory is None:
            raise KeyError(key)
        v = self.default_factory()
        self._kv.append((key, v))
        return v


class SCounter(SDict):
    """collections.Counter over an association list (symbolic keys allowed)"""

    def __init__(self, iterable=None, **k):
        SDict.__init__(self)
        if iterable is not None:
            self.update(iterable)
        for kk, vv in k.items():
            self[kk] = self[kk] + vv

    def __missing__(self, key):
        return 0

    def update(self, iterable=None, **k):
        if iterable is not None:
            if hasattr(iterable, "keys"):
                for kk in iterable.keys():
                    self[kk] = self[kk] + iterable[kk]
            else:
                for x in iterable:
                    self[x] = self[x] + 1

    def most_common(self, n=None):
        items = _real_sorted(self._kv, key=lambda kv: -kv[1])
        return items if n is None else items[:n]

    def elements(self):
        for kk, vv in self._kv:
            for _ in range(vv):
                yield kk

    def total(self):
        return sum(v for _, v in self._kv)


class SSet(_real_set, metaclass=_M):
    _base = _real_set

    def __init__(self, it=()):
        _real_set.__init__(self)
        self._d = SDict()
        for x in it:
            self._d[x] = 1

    def _sx_items(self):
        return self._d.keys()

    def add(self, x):
        self._d[x] = 1

    def discard(self, x):
        self._d.pop(x, None)

    def remove(self, x):
        del self._d[x]

    def pop(self):
        return self._d.popitem()[0]

    def update(self, *its):
        for it in its:
            for x in it:
                self._d[x] = 1

    def __contains__(self, x):
        return x in self._d

    def __iter__(self):
        ks = _real_list(self._d.keys())
        order = ENV.get("set_order")
        if order is not None and len(ks) > 1:
            # the iteration order of a real set follows the hash seed: the harness may make it a solver-chosen permutation
            ks = order(ks)
        return iter(ks)

    def __len__(self):
        return len(self._d)

    def __bool__(self):
        return _real_bool(self._d)

    def copy(self):
        return SSet(self._d.keys())

    def clear(self):
        self._d = SDict()

    def union(self, *others):
        r = SSet(self._d.keys())
        r.update(*others)
        return r

    def __or__(self, o):
        return self.union(o)

    __ror__ = __or__

    def __ior__(self, o):
        self.update(o)
        return self

    def intersection(self, o):
        return SSet([x for x in self._d.keys() if sx_contains(o, x)])

    def __and__(self, o):
        return self.intersection(o)

    __rand__ = __and__

    def difference(self, *others):
        return SSet([x for x in self._d.keys() if not any(sx_contains(o, x) for o in others)])

    def __sub__(self, o):
        return self.difference(o)

    def __rsub__(self, o):
        return SSet([x for x in o if x not in self])

    def difference_update(self, *others):
        for o in others:
            for x in list(o):
                self.discard(x)

    def __isub__(self, o):
        self.difference_update(o)
        return self

    def issubset(self, o):
        return all(sx_contains(o, x) for x in self._d.keys())

    def issuperset(self, o):
        return all(x in self for x in o)

    def __le__(self, o):
        return self.issubset(o)

    def __ge__(self, o):
        return self.issuperset(o)

    def isdisjoint(self, o):
        return not any(sx_contains(o, x) for x in self)

    def __eq__(self, o):
        if not _real_isinstance(o, (_real_set, _real_frozenset)):
            return False
        return len(o) == len(self) and all(sx_contains(o, x) for x in self)

    def __ne__(self, o):
        return not self.__eq__(o)

    __hash__ = None

    def __repr__(self):
        return "SSet(%r)" % (self._d.keys(),)

    def __reduce__(self):
        return (SSet, (list(self._d.keys()),))

    def __deepcopy__(self, memo):
        return SSet(self)

    def __copy__(self):
        return SSet(self)


def to_sx(obj):
    """Deep-convert plain dicts (e.g. a spec) into SDicts so symbolic keys can be inserted/looked up."""
    if type(obj) is SDict:
        d = SDict()
        for k, v in obj._kv:
            d[k] = to_sx(v)
        return d
    if _real_isinstance(obj, _real_dict):
        d = SDict()
        for k, v in obj.items():
            d[k] = to_sx(v)
        return d
    if _real_isinstance(obj, list):
        return [to_sx(x) for x in obj]
    return obj


# ------------------------------------------------------------------ models of C-level helpers
def sym_repr(s):
    """repr() of a symbolic string."""
    e = Engine.cur
    has_sq = _real_bool(s.contains_expr("'"))
    has_dq = has_sq and _real_bool(s.contains_expr('"'))
    quote = '"' if (has_sq and not has_dq) else "'"
    out = [ord(quote)]
    printable = PRED["isprintable"]
    for c in s.cs:
        if _real_isinstance(c, int):
            r = _real_repr(chr(c))[1:-1]
            if chr(c) == "'" and quote == "'":
                r = "\\'"
            elif chr(c) == "'" and quote == '"':
                r = "'"
            elif chr(c) == '"' and quote == '"':
                r = '\\"'
            out.extend(ord(x) for x in r)
            continue
        if e.decide(c == 92):
            out.extend([92, 92])
        elif e.decide(c == ord(quote)):
            out.extend([92, ord(quote)])
        elif e.decide(zin(c, printable)):
            out.append(c)
        else:
            # non printable: fork on the exact character (finite alphabet)
            done = False
            from .core import UNIVERSE as SIGMA

            for k in SIGMA:
                if chr(k).isprintable():
                    continue
                if e.decide(c == k):
                    out.extend(ord(x) for x in _real_repr(chr(k))[1:-1])
                    done = True
                    break
            if not done:
                raise Unsupported("repr of non-printable outside alphabet")
    out.append(ord(quote))
    return SymStr(out)


def sym_json_string(s, ensure_ascii=True):
    e = Engine.cur
    out = [34]
    from .core import UNIVERSE as SIGMA

    special = ranges_of(lambda ch: _json.dumps(ch, ensure_ascii=ensure_ascii) != '"' + ch + '"')
    for c in s.cs:
        if _real_isinstance(c, int):
            out.extend(ord(x) for x in _json.dumps(chr(c), ensure_ascii=ensure_ascii)[1:-1])
            continue
        if e.decide(zin(c, special)):
            done = False
            for k in SIGMA:
                enc = _json.dumps(chr(k), ensure_ascii=ensure_ascii)[1:-1]
                if enc == chr(k):
                    continue
                if e.decide(c == k):
                    out.extend(ord(x) for x in enc)
                    done = True
                    break
            if not done:
                raise Unsupported("json escape outside alphabet")
        else:
            out.append(c)
    out.append(34)
    return SymStr(out)


def _has_sym(x, depth=0):
    t = type(x)
    if t is SymStr:
        return not x.is_concrete()
    if t in (SymInt, SymBool):
        return True
    if depth > 6:
        return False
    if t is SDict:
        return any(_has_sym(k, depth + 1) or _has_sym(v, depth + 1) for k, v in x._kv)
    if t is SSet:
        return any(_has_sym(k, depth + 1) for k in x._d.keys())
    if t in (list, tuple):
        return any(_has_sym(v, depth + 1) for v in x)
    if t is _real_dict:
        return any(_has_sym(v, depth + 1) for v in x.values())
    return False


def sym_json_dumps(obj, **kw):
    allowed = {"ensure_ascii", "sort_keys", "indent", "separators", "default"}
    if set(kw) - allowed or kw.get("indent") is not None:
        raise Unsupported("json.dumps options %r with symbolic content" % (kw,))
    ea = kw.get("ensure_ascii", True)
    seps = kw.get("separators") or (", ", ": ")

    def enc(o):
        if type(o) is SymStr:
            return sym_json_string(o, ea)
        if o is None or _real_isinstance(o, (bool, int, float, str)):
            return SymStr.lift(_json.dumps(o, ensure_ascii=ea))
        if _real_isinstance(o, (list, tuple)):
            return "[" + join(seps[0], [enc(x) for x in o]) + "]"
        if _real_isinstance(o, _real_dict):
            items = o.items()
            if kw.get("sort_keys"):
                items = _real_sorted(items, key=lambda kv: kv[0])
            return "{" + join(seps[0], [enc(k) + seps[1] + enc(v) for k, v in items]) + "}"
        raise Unsupported("json.dumps of %r" % type(o))

    r = enc(obj)
    return r


def sym_expandtabs(text, tabsize=8):
    """str.expandtabs on a symbolic string (column resets at \n and \r)."""
    e = Engine.cur
    out = []
    col = 0
    for c in text.cs:
        if _real_isinstance(c, int):
            istab, isnl = c == 9, c in (10, 13)
        else:
            istab = e.decide(c == 9)
            isnl = (not istab) and e.decide(z3.Or(c == 10, c == 13))
        if istab:
            k = tabsize - (col % tabsize) if tabsize > 0 else 0
            out.extend([32] * k)
            col += k
        elif isnl:
            out.append(c)
            col = 0
        else:
            out.append(c)
            col += 1
    return SymStr(out)


_TW_WS = ranges_of(lambda ch: ch in "\t\n\x0b\x0c\r ")
_UNI_WS = PRED["isspace"]


def tw_wrap_model(text, width=70, **kw):
    """Model of textwrap.TextWrapper.wrap for texts that fit on ONE line (anything longer -> Unsupported).

    textwrap: expandtabs; each of '\t\n\x0b\x0c\r ' becomes a space; the text is cut into alternating chunks of spaces and
    non-spaces; nothing is collapsed; leading whitespace of the first line is kept; ONE trailing chunk is dropped if
    `chunk.strip() == ''` (str.strip: Unicode whitespace, so a chunk made only of U+2028 / NBSP / \x1c.. counts); a text
    with no remaining chunk yields no line."""
    allowed = {"initial_indent", "subsequent_indent", "break_long_words", "break_on_hyphens", "replace_whitespace", "drop_whitespace"}
    if set(kw) - allowed:
        raise Unsupported("textwrap options %r" % (kw,))
    if kw.get("replace_whitespace", True) is not True or kw.get("drop_whitespace", True) is not True:
        raise Unsupported("textwrap with replace_whitespace/drop_whitespace disabled")
    ii = kw.get("initial_indent", "")
    e = Engine.cur
    text = sym_expandtabs(SymStr.lift(text))
    if len(text) + len(ii) > width:
        raise Unsupported("symbolic text longer than wrap width")
    # translate + chunk
    chunks = []  # (is_space_chunk, [chars])
    for c in text.cs:
        if _real_isinstance(c, int):
            isws = chr(c) in "\t\n\x0b\x0c\r "
        else:
            isws = e.decide(zin(c, _TW_WS))
        ch = 32 if isws else c
        if chunks and chunks[-1][0] == isws:
            chunks[-1][1].append(ch)
        else:
            chunks.append((isws, [ch]))
    if chunks:
        sp, last = chunks[-1]
        if sp:
            strip_empty = True
        else:
            strip_empty = True
            for c in last:
                if _real_isinstance(c, int):
                    if not chr(c).isspace():
                        strip_empty = False
                        break
                elif not e.decide(zin(c, _UNI_WS)):
                    strip_empty = False
                    break
        if strip_empty:
            chunks.pop()
    if not chunks:
        return []
    out = list(SymStr.lift(ii).cs)
    for _, ch in chunks:
        out.extend(ch)
    return [SymStr(out).simp()]


class _TW:
    """stand-in for textwrap.TextWrapper when wrap() gets symbolic text"""

    def __init__(self, real):
        self.real = real


def tw_dedent_model(text):
    """textwrap.dedent on a symbolic string, following the stdlib algorithm line by line:
    lines of only spaces/tabs become empty; margin = longest common leading [ \t]* of the lines that have other
    content; the margin is removed from every line that starts with it.  (Lines are split at \n only, like re.MULTILINE.)"""
    e = Engine.cur
    blank = ranges_of(lambda ch: ch in " \t")

    def is_blank(c):
        return (chr(c) in " \t") if _real_isinstance(c, int) else e.decide(zin(c, blank))

    lines = [SymStr.lift(l) for l in SymStr.lift(text).split("\n")]
    out = []
    for ln in lines:
        if len(ln) and all(is_blank(c) for c in ln.cs):
            out.append(SymStr([]))
        else:
            out.append(ln)
    margin = None
    for ln in out:
        i = 0
        while i < len(ln) and is_blank(ln.cs[i]):
            i += 1
        if i >= len(ln):
            continue
        indent = list(ln.cs[:i])
        if margin is None:
            margin = indent
        else:
            k = 0
            while k < len(margin) and k < len(indent) and _real_bool(SymStr([margin[k]]) == SymStr([indent[k]])):
                k += 1
            margin = margin[:k]
    if margin:
        m = SymStr(margin)
        out = [SymStr(ln.cs[len(margin):]) if ln.startswith(m) else ln for ln in out]
    return join("\n", out)


# ------------------------------------------------------------------ dispatch
_LOGGER_TYPES = (_logging.Logger, _logging.LoggerAdapter)


def _sym_in(args, kwargs=None):
    for x in args:
        if type(x) is SymStr and not x.is_concrete():
            return True
        if type(x) in (SymInt, SymBool):
            return True
    if kwargs:
        for x in kwargs.values():
            if type(x) is SymStr and not x.is_concrete():
                return True
    return False


def _deep_sym_in(args):
    return any(_has_sym(x) for x in args)


def sx_isinstance(obj, cls):
    t = type(obj)
    if t is SymStr:
        cl = cls if _real_isinstance(cls, tuple) else (cls,)
        return any(c is str or c is object for c in cl)
    if t is SymInt:
        cl = cls if _real_isinstance(cls, tuple) else (cls,)
        return any(c is int or c is object for c in cl)
    if t is SymBool:
        cl = cls if _real_isinstance(cls, tuple) else (cls,)
        return any(c is bool or c is int or c is object for c in cl)
    return _real_isinstance(obj, cls)


def sx_call(f, *a, **k):
    # fast path: nothing symbolic at top level and not one of the special functions
    if f is _real_isinstance and len(a) == 2:
        return sx_isinstance(a[0], a[1])
    selfobj = getattr(f, "__self__", None)
    if selfobj is not None and _real_isinstance(selfobj, _LOGGER_TYPES):
        return None
    if f is _warnings.warn:
        return None
    if f is _real_id:
        hook = ENV.get("id")
        if hook is not None:
            return hook(a[0])
        return _real_id(a[0])
    if not a and not k:
        return f()
    a0 = a[0] if a else None
    t0 = type(a0)
    # `import re` inside a function body binds the real module: route its entry points to the symbolic matcher
    if getattr(f, "__module__", None) == "re" and getattr(_re, getattr(f, "__name__", ""), None) is f:
        alt = getattr(RX.FakeRe, f.__name__, None)
        if alt is not None and _deep_sym_in(a):
            return alt(*a, **k)
    if selfobj is not None and type(selfobj) is _re.Pattern and _deep_sym_in(a):
        # a pattern compiled at module level (re.compile with a concrete pattern returns the real object): its methods
        # are routed to the symbolic matcher with the same pattern text and flags
        alt = getattr(RX.SymPattern(selfobj.pattern, selfobj.flags & ~_re.UNICODE), getattr(f, "__name__", ""), None)
        if alt is None:
            raise Unsupported("re.Pattern.%s on a symbolic string" % getattr(f, "__name__", "?"))
        return alt(*a, **k)
    if f is float and t0 is SymStr:
        return sym_float(a0)
    if f is _collections.Counter and _deep_sym_in(a):
        return SCounter(*a, **k)
    if f is print and _deep_sym_in(a):
        return None  # console output is not part of any kernel
    if f is _real_str or f is str:
        if t0 is SymStr:
            return a0
        if hasattr(a0, "_sx_str_"):
            return a0._sx_str_()
        if t0 is SymInt:
            return symint_to_str(a0)
        if t0 is SymBool:
            return "True" if _real_bool(a0) else "False"
        return f(*a, **k)
    if f is _real_repr:
        if t0 is SymStr:
            return sym_repr(a0) if not a0.is_concrete() else _real_repr(a0.concrete())
        return f(*a, **k)
    if f is _real_len:
        return _real_len(a0)
    if f is _real_hash and t0 is SymStr:
        raise Unsupported("hash of symbolic string")
    if selfobj is os.environ and getattr(f, "__name__", "") == "get" and a and a[0] in ENV.get("environ", ()):
        return ENV["environ"][a[0]]  # harness-controlled (possibly symbolic) environment variable
    if f is _real_int and t0 is SymInt:
        return a0
    if f is _real_int and t0 is SymStr:
        if a0.is_concrete():
            return _real_int(a0.concrete(), *a[1:])
        raise Unsupported("int() of symbolic string")
    if f is _real_bool and t0 in (SymStr, SymBool, SymInt):
        return _real_bool(a0)
    if f is ord and t0 is SymStr:
        c = a0.cs[0]
        return c if _real_isinstance(c, int) else SymInt(c)
    if f is _json.dumps and _deep_sym_in(a[:1]):
        return sym_json_dumps(a0, **k)
    if f is _textwrap.wrap and t0 is SymStr and not a0.is_concrete():
        return tw_wrap_model(a0, *a[1:], **k)
    if f is _textwrap.dedent and t0 is SymStr and not a0.is_concrete():
        return tw_dedent_model(a0)
    if f is _textwrap.indent and t0 is SymStr and not a0.is_concrete():
        raise Unsupported("textwrap.indent symbolic")
    if selfobj is not None:
        ts = type(selfobj)
        if ts is _textwrap.TextWrapper and f.__name__ in ("wrap", "fill") and t0 is SymStr and not a0.is_concrete():
            w = selfobj
            r = tw_wrap_model(a0, w.width, initial_indent=w.initial_indent, subsequent_indent=w.subsequent_indent)
            return r if f.__name__ == "wrap" else join("\n", r)
        if ts is str:
            name = f.__name__
            if name == "join":
                items = list(a0)
                if any(type(x) is SymStr for x in items):
                    return join(selfobj, items)
                return selfobj.join(items)
            if name == "format":
                if _sym_in(a, k):
                    return sym_format(selfobj, a, k)
                return f(*a, **k)
            if _sym_in(a, k):
                return getattr(SymStr.lift(selfobj), name)(*a, **k)
            return f(*a, **k)
        if ts in (_real_dict, _real_frozenset, _real_set) and t0 is SymInt:
            name = f.__name__
            if name in ("get", "__contains__", "__getitem__"):
                for kk in selfobj:
                    if _real_isinstance(kk, int) and not _real_isinstance(kk, bool) and _real_bool(a0 == kk):
                        return True if name == "__contains__" else (selfobj[kk] if ts is _real_dict else kk)
                if name == "__contains__":
                    return False
                if name == "get":
                    return a[1] if len(a) > 1 else None
                raise KeyError(a0)
            raise Unsupported("%s.%s with symbolic int key" % (ts.__name__, name))
        if ts in (_real_dict, _real_frozenset, _real_set) and t0 is SymStr:
            name = f.__name__
            if a0.is_concrete():
                return f(a0.concrete(), *a[1:], **k)
            if name == "__contains__":
                return _real_bool(contains_any(selfobj, a0))
            if ts is _real_dict:
                if name == "get":
                    for kk, vv in selfobj.items():
                        if _real_isinstance(kk, str) and len(kk) == len(a0) and _real_bool(a0 == kk):
                            return vv
                    return a[1] if len(a) > 1 else None
                if name in ("pop",):
                    for kk in list(selfobj.keys()):
                        if _real_isinstance(kk, str) and len(kk) == len(a0) and _real_bool(a0 == kk):
                            return selfobj.pop(kk)
                    if len(a) > 1:
                        return a[1]
                    raise KeyError(a0)
            raise Unsupported("%s.%s with symbolic key" % (ts.__name__, name))
        if ts is list and t0 is SymStr and f.__name__ in ("index", "count", "remove", "__contains__"):
            name = f.__name__
            if name == "__contains__":
                return sx_contains(selfobj, a0)
            if name == "count":
                return sum(1 for x in selfobj if _keq(x, a0))
            for i, x in enumerate(selfobj):
                if _keq(x, a0):
                    if name == "index":
                        return i
                    del selfobj[i]
                    return None
            raise ValueError("not in list")
    if f is _keyword.iskeyword and t0 is SymStr:
        return _real_bool(contains_any(_keyword.kwlist, a0))
    if f is _real_sorted or f is min or f is max:
        return f(*a, **k)
    if (f is _real_dict or f is SDict) :
        return SDict(*a, **k)
    if f is _real_set or f is SSet:
        return SSet(*a)
    if f is _real_frozenset and a and (_deep_sym_in(a) or type(a0) in (SSet, SDict)):
        # frozenset(<SSet>) at C level would read the (empty) underlying set, not the association list
        return SSet(*a)
    if f is getattr and len(a) >= 2 and type(a[1]) is SymStr:
        if a[1].is_concrete():
            return getattr(a0, a[1].concrete(), *a[2:])
        raise Unsupported("getattr with symbolic name")
    if f is os.path.join or f is os.path.exists:
        if _sym_in(a):
            raise Unsupported("os.path with symbolic string")
    # fully concrete SymStr values must not leak into uninstrumented callees
    if any(type(x) is SymStr for x in a):
        a = tuple(x.concrete() if (type(x) is SymStr and x.is_concrete()) else x for x in a)
    if k and any(type(x) is SymStr for x in k.values()):
        k = {kk: (x.concrete() if (type(x) is SymStr and x.is_concrete()) else x) for kk, x in k.items()}
    return f(*a, **k)


_FLOAT_OK = {}


def sym_float(s):
    """float(<symbolic string>): CPython's float grammar is decided by enumeration over the engine's alphabet at this length
    (every accepted string is a fork; all others raise ValueError), so the model is exact inside the bound."""
    import itertools

    if s.is_concrete():
        return float(s.concrete())
    e = Engine.cur
    pts = [c for lo, hi in e.alpha for c in range(lo, hi + 1)]
    n = len(s)
    if len(pts) ** n > 60000:
        raise Unsupported("float() of a symbolic string: alphabet^length too large to tabulate")
    key = (tuple(pts), n)
    if key not in _FLOAT_OK:
        ok = []
        for t in itertools.product(pts, repeat=n):
            txt = "".join(map(chr, t))
            try:
                float(txt)
                ok.append(txt)
            except ValueError:
                pass
        _FLOAT_OK[key] = ok
    for txt in _FLOAT_OK[key]:
        if _real_bool(s == txt):
            return float(txt)
    raise ValueError("could not convert string to float")


def symint_to_str(n, max_digits=6):
    """decimal rendering of a symbolic int: forks on sign and digit count, digits tied to n by a linear constraint."""
    e = Engine.cur
    v = n.e
    neg = e.decide(v < 0)
    mag = -v if neg else v
    k = 1
    bound = 10
    while k < max_digits and not e.decide(mag < bound):
        k += 1
        bound *= 10
    if k == max_digits and not e.decide(mag < bound):
        raise Unsupported("symbolic int with more than %d digits" % max_digits)
    ds = [e.fresh_int(None, 0, 9) for _ in range(k)]
    total = 0
    for d in ds:
        total = total * 10 + d
    e.solver.add(total == mag)
    if k > 1:
        e.solver.add(ds[0] >= 1)
    e.model = None
    cs = ([45] if neg else []) + [d + 48 for d in ds]
    return SymStr(cs)


def sym_format(fmt, a, k):
    # only plain {} / {0} / {name} fields
    import string

    out = []
    auto = 0
    for lit, field, spec, conv in string.Formatter().parse(fmt):
        out.extend(ord(c) for c in lit)
        if field is None:
            continue
        if spec or conv:
            raise Unsupported("str.format with spec/conversion on symbolic")
        if field == "":
            v = a[auto]
            auto += 1
        elif field.isdigit():
            v = a[_real_int(field)]
        else:
            v = k[field]
        if type(v) is SymStr:
            out.extend(v.cs)
        else:
            out.extend(ord(c) for c in _real_str(v))
    return SymStr(out).simp()


def sx_contains(container, item):
    ti = type(item)
    tc = type(container)
    if ti is SymStr:
        if item.is_concrete() and tc in (_real_set, _real_frozenset, _real_dict, str):
            return item.concrete() in container
        if tc in (_real_set, _real_frozenset, _real_dict):
            return _real_bool(contains_any(container, item))
        if tc in (list, tuple):
            for x in container:
                if _keq(x, item):
                    return True
            return False
        if tc is SymStr:
            return item in container
        if tc is str:
            return _real_bool(SymStr.lift(container).contains_expr(item))
        if tc in (SDict, SSet, SDefaultDict):
            return item in container
        if hasattr(container, "keys") and hasattr(container, "__getitem__"):
            return _real_bool(contains_any(list(container.keys()), item))
        return item in container
    if tc is SymStr:
        return item in container
    if ti is tuple and tc in (list, tuple) and _has_sym(item):
        return any(_keq(x, item) for x in container)
    if ti is SymInt and tc is _real_dict:
        return _real_bool(s_or(*[item == x for x in container if _real_isinstance(x, int) and not _real_isinstance(x, bool)]))
    if ti is SymInt:
        if tc in (list, tuple, _real_set, _real_frozenset, range):
            return _real_bool(s_or(*[item == x for x in container if _real_isinstance(x, (int, SymInt))]))
    return item in container


def sx_fstr(*parts):
    if any(kind and hasattr(type(p), "_sx_str_") for kind, p, conv, spec in parts):
        # path-like stand-ins (memfs.SPath, props.c07._FakePath) render through their own symbolic text
        parts = tuple((kind, (p._sx_str_() if (kind and hasattr(type(p), "_sx_str_")) else p), conv, spec) for kind, p, conv, spec in parts)
    anysym = False
    for kind, p, conv, spec in parts:
        if kind and type(p) is SymStr and not p.is_concrete():
            anysym = True
            break
        if kind and type(p) in (SymInt, SymBool):
            anysym = True
            break
    if not anysym:
        out = []
        for kind, p, conv, spec in parts:
            if not kind:
                out.append(p)
            else:
                if type(p) is SymStr:
                    p = p.concrete()
                if conv == 114:
                    p = _real_repr(p)
                elif conv == 115:
                    p = _real_str(p)
                elif conv == 97:
                    p = ascii(p)
                out.append(format(p, spec))
        return "".join(out)
    out = []
    for kind, p, conv, spec in parts:
        if not kind:
            out.extend(ord(c) for c in p)
        elif type(p) is SymStr:
            if spec:
                raise Unsupported("format spec on symbolic string")
            if conv == 114:
                out.extend(sym_repr(p).cs)
            elif conv == 97:
                raise Unsupported("!a on symbolic")
            else:
                out.extend(p.cs)
        elif type(p) is SymInt:
            if spec:
                raise Unsupported("format spec on symbolic int")
            out.extend(symint_to_str(p).cs)
        elif type(p) is SymBool:
            out.extend(ord(c) for c in ("True" if _real_bool(p) else "False"))
        else:
            if conv == 114:
                if _has_sym(p):
                    raise Unsupported("repr of container with symbolic content in f-string")
                p = _real_repr(p)
            elif conv == 115:
                p = _real_str(p)
            elif conv == 97:
                p = ascii(p)
            elif _has_sym(p):
                raise Unsupported("str of container with symbolic content in f-string")
            out.extend(ord(c) for c in format(p, spec))
    return SymStr(out)


def sx_getitem(o, key):
    tk = type(key)
    if tk is SymInt and type(o) is _real_dict:
        for kk, vv in o.items():
            if _real_isinstance(kk, int) and not _real_isinstance(kk, bool) and _real_bool(key == kk):
                return vv
        raise KeyError(key)
    if tk is SymStr:
        to = type(o)
        if to is _real_dict or (to is not SDict and to is not SDefaultDict and _real_isinstance(o, _real_dict) and not hasattr(o, "_kv")):
            if key.is_concrete():
                return o[key.concrete()]
            for kk, vv in o.items():
                if _real_isinstance(kk, str) and len(kk) == len(key) and _real_bool(key == kk):
                    return vv
            if hasattr(type(o), "__missing__"):
                raise Unsupported("defaultdict[symbolic]")
            raise KeyError(key)
    return o[key]


def mkdict(pairs):
    d = SDict()
    for k, v in pairs:
        d[k] = v
    return d


def mkdict_parts(parts):
    """{**a, k: v, **b}: parts = [(None, mapping) | (k, v)]"""
    d = SDict()
    for k, v in parts:
        if k is _SPREAD:
            d.update(v)
        else:
            d[k] = v
    return d


_SPREAD = object()

ENV = {}  # harness-controlled nondeterministic environment (e.g. "id")


class FakeKeyword:
    kwlist = _keyword.kwlist
    softkwlist = _keyword.softkwlist

    @staticmethod
    def iskeyword(s):
        if type(s) is SymStr:
            if s.is_concrete():
                return _keyword.iskeyword(s.concrete())
            return _real_bool(contains_any(_keyword.kwlist, s))
        return _keyword.iskeyword(s)

    @staticmethod
    def issoftkeyword(s):
        if type(s) is SymStr:
            return _real_bool(contains_any(_keyword.softkwlist, s))
        return _keyword.issoftkeyword(s)


# ------------------------------------------------------------------ AST rewrite
_NOWRAP = {"super", "locals", "globals", "vars", "SX_contains", "SX_fstr", "SX_getitem", "SX_mkdict", "SX_mkset", "SX_call", "SX_mkdict_parts"}


class T(ast.NodeTransformer):
    def __init__(self, renames):
        self.renames = renames  # {"pyopenapi_gen": "sxi_pyopenapi_gen"}

    def _ren(self, mod):
        if mod is None:
            return mod
        for a, b in self.renames.items():
            if mod == a or mod.startswith(a + "."):
                return b + mod[len(a) :]
        return mod

    def visit_ImportFrom(self, node):
        if node.level == 0:
            node.module = self._ren(node.module)
        return node

    def visit_Import(self, node):
        for al in node.names:
            new = self._ren(al.name)
            if new != al.name:
                if al.asname is None:
                    raise Unsupported("plain `import %s` cannot be renamed" % al.name)
                al.name = new
        return node

    def visit_Compare(self, node):
        self.generic_visit(node)
        if len(node.ops) == 1 and isinstance(node.ops[0], (ast.In, ast.NotIn)):
            call = ast.Call(func=ast.Name("SX_contains", ast.Load()), args=[node.comparators[0], node.left], keywords=[])
            return ast.UnaryOp(ast.Not(), call) if isinstance(node.ops[0], ast.NotIn) else call
        return node

    def visit_Call(self, node):
        self.generic_visit(node)
        if isinstance(node.func, ast.Name) and node.func.id in _NOWRAP:
            return node
        return ast.Call(func=ast.Name("SX_call", ast.Load()), args=[node.func] + node.args, keywords=node.keywords)

    def visit_JoinedStr(self, node):
        self.generic_visit(node)
        parts = []
        for v in node.values:
            if isinstance(v, ast.Constant):
                parts.append(ast.Tuple([ast.Constant(0), v, ast.Constant(-1), ast.Constant("")], ast.Load()))
            else:
                spec = v.format_spec if v.format_spec is not None else ast.Constant("")
                parts.append(ast.Tuple([ast.Constant(1), v.value, ast.Constant(v.conversion), spec], ast.Load()))
        return ast.Call(func=ast.Name("SX_fstr", ast.Load()), args=parts, keywords=[])

    def visit_Dict(self, node):
        self.generic_visit(node)
        if any(k is None for k in node.keys):
            parts = [
                ast.Tuple([ast.Name("SX_SPREAD", ast.Load()) if k is None else k, v], ast.Load())
                for k, v in zip(node.keys, node.values)
            ]
            return ast.Call(func=ast.Name("SX_mkdict_parts", ast.Load()), args=[ast.List(parts, ast.Load())], keywords=[])
        return ast.Call(
            func=ast.Name("SX_mkdict", ast.Load()),
            args=[ast.List([ast.Tuple([k, v], ast.Load()) for k, v in zip(node.keys, node.values)], ast.Load())],
            keywords=[],
        )

    def visit_Set(self, node):
        self.generic_visit(node)
        return ast.Call(func=ast.Name("SX_mkset", ast.Load()), args=[ast.List(node.elts, ast.Load())], keywords=[])

    def visit_DictComp(self, node):
        self.generic_visit(node)
        return ast.Call(
            func=ast.Name("SX_mkdict", ast.Load()),
            args=[ast.ListComp(ast.Tuple([node.key, node.value], ast.Load()), node.generators)],
            keywords=[],
        )

    def visit_SetComp(self, node):
        self.generic_visit(node)
        return ast.Call(func=ast.Name("SX_mkset", ast.Load()), args=[ast.ListComp(node.elt, node.generators)], keywords=[])

    def visit_Subscript(self, node):
        self.generic_visit(node)
        if isinstance(node.ctx, ast.Load) and not isinstance(node.slice, ast.Slice):
            return ast.Call(func=ast.Name("SX_getitem", ast.Load()), args=[node.value, node.slice], keywords=[])
        return node

    # annotations are never evaluated symbolically; leave them untouched so typing constructs keep working
    def visit_AnnAssign(self, node):
        if node.value is not None:
            node.value = self.visit(node.value)
        node.target = self.visit(node.target)
        return node

    def visit_arg(self, node):
        return node

    def visit_FunctionDef(self, node):
        node.args = self._visit_args(node.args)
        node.body = [self.visit(b) for b in node.body]
        node.decorator_list = [self.visit(d) for d in node.decorator_list]
        return node

    visit_AsyncFunctionDef = visit_FunctionDef

    def _visit_args(self, args):
        args.defaults = [self.visit(d) for d in args.defaults]
        args.kw_defaults = [self.visit(d) if d is not None else None for d in args.kw_defaults]
        return args


INJECT = {
    "SX_contains": sx_contains,
    "SX_fstr": sx_fstr,
    "SX_call": sx_call,
    "SX_getitem": sx_getitem,
    "SX_mkdict": mkdict,
    "SX_mkdict_parts": mkdict_parts,
    "SX_SPREAD": _SPREAD,
    "SX_mkset": SSet,
}


def instrument_source(src, filename, renames):
    tree = ast.parse(src, filename)
    tree = T(renames).visit(tree)
    ast.fix_missing_locations(tree)
    return compile(tree, filename, "exec", dont_inherit=True)


class Loader(importlib.abc.Loader):
    def __init__(self, name, path, renames):
        self.name, self.path, self.renames = name, path, renames

    def create_module(self, spec):
        return None

    def exec_module(self, module):
        with open(self.path, "rb") as fh:
            src = fh.read()
        code = instrument_source(src, self.path, self.renames)
        module.__dict__.update(INJECT)
        module.__dict__["dict"] = SDict
        module.__dict__["set"] = SSet
        exec(code, module.__dict__)
        d = module.__dict__
        if d.get("re") is _re:
            d["re"] = RX.FakeRe
        if d.get("keyword") is _keyword:
            d["keyword"] = FakeKeyword
        import collections

        if d.get("defaultdict") is collections.defaultdict:
            d["defaultdict"] = SDefaultDict
        if d.get("Counter") is collections.Counter:
            d["Counter"] = SCounter

    def get_filename(self, name):
        return self.path


class Finder(importlib.abc.MetaPathFinder):
    def __init__(self, roots):
        # roots: {"pyopenapi_gen": "/repo/src/pyopenapi_gen"}
        self.roots = roots
        self.renames = {k: PREFIX + k for k in roots}

    def find_spec(self, name, path, target=None):
        for pkg, root in self.roots.items():
            ipkg = PREFIX + pkg
            if name == ipkg or name.startswith(ipkg + "."):
                rel = name[len(ipkg) :].lstrip(".").split(".") if name != ipkg else []
                base = os.path.join(root, *rel)
                if os.path.isdir(base) and os.path.exists(os.path.join(base, "__init__.py")):
                    p = os.path.join(base, "__init__.py")
                    return importlib.util.spec_from_file_location(
                        name, p, loader=Loader(name, p, self.renames), submodule_search_locations=[base]
                    )
                if os.path.exists(base + ".py"):
                    p = base + ".py"
                    return importlib.util.spec_from_file_location(name, p, loader=Loader(name, p, self.renames))
                return None
        return None


_installed = None


def install(roots=None):
    global _installed
    if _installed is None:
        roots = roots or {"pyopenapi_gen": os.path.join(os.environ.get("VERIF_REPO", "/repo"), "src", "pyopenapi_gen")}
        _installed = Finder(roots)
        sys.meta_path.insert(0, _installed)
        sys.dont_write_bytecode = True
    return _installed


def add_root(pkg, path):
    """Make package `pkg` at `path` importable instrumented as sxi_<pkg>."""
    f = install()
    f.roots[pkg] = path
    f.renames[pkg] = PREFIX + pkg
    return PREFIX + pkg


def load_file_instrumented(path, modname, extra_globals=None):
    """Instrument a single stand-alone source file (e.g. httpx/_decoders.py) under `modname`."""
    import types

    with open(path, "rb") as fh:
        src = fh.read()
    code = instrument_source(src, path, {})
    mod = types.ModuleType(modname)
    mod.__file__ = path
    mod.__dict__.update(INJECT)
    mod.__dict__["dict"] = SDict
    mod.__dict__["set"] = SSet
    if extra_globals:
        mod.__dict__.update(extra_globals)
    return mod, code
