"""symx core: bounded symbolic strings / ints / bools + fork-on-decide path exploration over z3.

Values
  SymStr  string of *concrete length*; each character an int (concrete) or a z3 Int term
          constrained to the alphabet SIGMA.  Deliberately NOT a str subclass.
  SymBool z3 Bool; __bool__ forks.
  SymInt  z3 Int; linear arithmetic/comparison; __index__/__int__ unsupported unless concrete.

Exploration
  DFS by re-execution.  `decide(cond)` asks z3 which sides of `cond` are feasible under the
  path condition, follows one and queues the other as a decision prefix.  A side is declared
  infeasible only on `unsat`; `unknown` raises Inconclusive.
"""
from __future__ import annotations

import time
import z3

EXTRA = [0xE9, 0xC9, 0xDF, 0x131, 0x130, 0x663, 0xB2, 0x1C5, 0x4E2D, 0xFF41, 0xA0, 0x2028, 0x85, 0x301, 0x1F600, 0xAA]
SIGMA = sorted(set(range(0, 128)) | set(EXTRA))


def _closure(pts):
    """SIGMA closed under the case mappings: the universe over which predicates are tabulated."""
    seen = set(pts)
    work = list(pts)
    while work:
        c = work.pop()
        for fn in (str.lower, str.upper, str.title, str.casefold, str.capitalize):
            for ch in fn(chr(c)):
                if ord(ch) not in seen:
                    seen.add(ord(ch))
                    work.append(ord(ch))
    return sorted(seen)


UNIVERSE = _closure(SIGMA)


class Unsupported(BaseException):
    """An operation the engine has no model for: the obligation is inconclusive."""


class Inconclusive(BaseException):
    """Solver returned unknown."""


class Abort(BaseException):
    """Current path is infeasible / finished early (not an error)."""


def ranges_of_pts(pts):
    out = []
    for c in sorted(pts):
        if out and out[-1][1] == c - 1:
            out[-1][1] = c
        else:
            out.append([c, c])
    return tuple((a, b) for a, b in out)


def ranges_of(pred, universe=None):
    return ranges_of_pts([c for c in (universe or UNIVERSE) if pred(chr(c))])


SIGMA_RANGES = ranges_of_pts(SIGMA)
_SIGMA_SET = frozenset(UNIVERSE)


def neg_ranges(ranges):
    s = set()
    for lo, hi in ranges:
        s.update(range(lo, hi + 1))
    return ranges_of_pts([c for c in UNIVERSE if c not in s])


def union_ranges(*rss):
    s = set()
    for rs in rss:
        for lo, hi in rs:
            s.update(c for c in UNIVERSE if lo <= c <= hi)
    return ranges_of_pts(s)


def norm_ranges(ranges):
    """Restrict arbitrary code point ranges to SIGMA and normalise."""
    s = set()
    for lo, hi in ranges:
        s.update(c for c in UNIVERSE if lo <= c <= hi)
    return ranges_of_pts(s)


_TRUE = z3.BoolVal(True)
_FALSE = z3.BoolVal(False)


class Engine:
    cur: "Engine" = None  # type: ignore

    def __init__(self, alphabet_ranges=None, timeout_ms=20000):
        self.pending = [[]]
        self.paths = 0
        self.checks = 0
        self.decisions = 0
        self.solver_time = 0.0
        self.alpha = alphabet_ranges or SIGMA_RANGES
        self.timeout_ms = timeout_ms
        self.unknowns = 0
        self._rng_cache = {}

    # ---- per path ----
    def start(self, plan):
        self.solver = z3.SolverFor("QF_LIA")
        self.solver.set("timeout", self.timeout_ms)
        self.plan = plan
        self.trail = []
        self.model = None
        self.nvars = 0
        self.inputs = {}
        self._rng_cache = {}
        Engine.cur = self

    def fresh_char(self, name=None, ranges=None):
        self.nvars += 1
        v = z3.Int(name or "c%d" % self.nvars)
        self.solver.add(self.in_ranges(v, ranges or self.alpha))
        self.model = None
        return v

    def fresh_int(self, name=None, lo=None, hi=None):
        self.nvars += 1
        v = z3.Int(name or "i%d" % self.nvars)
        if lo is not None:
            self.solver.add(v >= lo)
        if hi is not None:
            self.solver.add(v <= hi)
        self.model = None
        return v

    def fresh_bool(self, name=None):
        self.nvars += 1
        return z3.Bool(name or "b%d" % self.nvars)

    def assume(self, cond):
        """Add a constraint to the path condition (harness precondition). Aborts path if infeasible."""
        if isinstance(cond, SymBool):
            cond = cond.e
        if isinstance(cond, bool):
            if not cond:
                raise Abort()
            return
        self.solver.add(cond)
        self.model = None
        r = self._check()
        if r == z3.unsat:
            raise Abort()

    def in_ranges(self, v, ranges):
        if isinstance(v, int):
            return any(lo <= v <= hi for lo, hi in ranges)
        key = (v.get_id(), ranges)
        r = self._rng_cache.get(key)
        if r is None:
            if not ranges:
                r = _FALSE
            else:
                r = z3.Or([v == lo if lo == hi else z3.And(v >= lo, v <= hi) for lo, hi in ranges])
            self._rng_cache[key] = r
        return r

    def _check(self, *a):
        t = time.time()
        r = self.solver.check(*a)
        self.solver_time += time.time() - t
        self.checks += 1
        if r == z3.unknown:
            self.unknowns += 1
            raise Inconclusive("solver unknown: %s" % self.solver.reason_unknown())
        return r

    def _ensure_model(self):
        if self.model is None:
            r = self._check()
            if r != z3.sat:
                raise Abort()
            self.model = self.solver.model()
        return self.model

    def decide(self, cond):
        if isinstance(cond, bool):
            return cond
        if isinstance(cond, SymBool):
            cond = cond.e
            if isinstance(cond, bool):
                return cond
        if z3.is_true(cond):
            return True
        if z3.is_false(cond):
            return False
        self.decisions += 1
        i = len(self.trail)
        if i < len(self.plan):
            ch = self.plan[i]
            self.trail.append(ch)
            self.solver.add(cond if ch else z3.Not(cond))
            self.model = None
            return ch
        m = self._ensure_model()
        v = m.eval(cond, model_completion=True)
        if z3.is_true(v):
            cur = True
        elif z3.is_false(v):
            cur = False
        else:  # should not happen with model completion; fall back to two checks
            cur = self._check(cond) == z3.sat
        other = z3.Not(cond) if cur else cond
        r = self._check(other)
        if r == z3.sat:
            self.pending.append(self.trail + [not cur])
        self.trail.append(cur)
        self.solver.add(cond if cur else z3.Not(cond))
        # model `m` still satisfies the extended pc
        return cur

    def choose(self, n, name=None):
        """Fork n ways; returns a concrete int in range(n)."""
        if n <= 1:
            return 0
        v = self.fresh_int(name, 0, n - 1)
        for i in range(n - 1):
            if self.decide(v == i):
                return i
        return n - 1

    # final queries
    def check_sat(self, cond):
        """Is pc ∧ cond satisfiable?  returns model or None."""
        if isinstance(cond, SymBool):
            cond = cond.e
        if isinstance(cond, bool):
            if not cond:
                return None
            return self._ensure_model()
        if z3.is_false(cond):
            return None
        r = self._check(cond)
        if r == z3.sat:
            return self.solver.model()
        return None


def eng() -> Engine:
    return Engine.cur


# ---------------------------------------------------------------- SymBool
class SymBool:
    __slots__ = ("e",)

    def __init__(self, e):
        self.e = e

    def __bool__(self):
        return Engine.cur.decide(self.e)

    def __invert__(self):
        return sb(z3.Not(self.e))

    def __and__(self, o):
        return sb(z3.And(self.e, zb(o)))

    def __or__(self, o):
        return sb(z3.Or(self.e, zb(o)))

    __rand__ = __and__
    __ror__ = __or__

    def __eq__(self, o):  # bool == bool
        if isinstance(o, (bool, SymBool)):
            return sb(self.e == zb(o))
        return False

    def __hash__(self):
        raise TypeError("SymBool unhashable")

    def __repr__(self):
        return "SymBool(%s)" % self.e


def sb(e):
    if isinstance(e, bool):
        return e
    if isinstance(e, SymBool):
        return e
    if z3.is_true(e):
        return True
    if z3.is_false(e):
        return False
    return SymBool(e)


def zb(x):
    if isinstance(x, SymBool):
        return x.e
    if isinstance(x, bool):
        return _TRUE if x else _FALSE
    if isinstance(x, z3.BoolRef):
        return x
    return _TRUE if x else _FALSE


def s_and(*xs):
    es = []
    for x in xs:
        if isinstance(x, bool):
            if not x:
                return False
            continue
        es.append(zb(x))
    if not es:
        return True
    return sb(z3.And(es) if len(es) > 1 else es[0])


def s_or(*xs):
    es = []
    for x in xs:
        if isinstance(x, bool):
            if x:
                return True
            continue
        es.append(zb(x))
    if not es:
        return False
    return sb(z3.Or(es) if len(es) > 1 else es[0])


def s_not(x):
    if isinstance(x, bool):
        return not x
    return sb(z3.Not(zb(x)))


# ---------------------------------------------------------------- SymInt
class SymInt:
    __slots__ = ("e",)

    def __init__(self, e):
        self.e = e

    @staticmethod
    def ze(x):
        if isinstance(x, SymInt):
            return x.e
        if isinstance(x, bool):
            return int(x)
        if isinstance(x, int):
            return x
        raise Unsupported("SymInt op with %r" % type(x))

    def __add__(self, o):
        return SymInt(self.e + SymInt.ze(o))

    __radd__ = __add__

    def __sub__(self, o):
        return SymInt(self.e - SymInt.ze(o))

    def __rsub__(self, o):
        return SymInt(SymInt.ze(o) - self.e)

    def __neg__(self):
        return SymInt(-self.e)

    def __mul__(self, o):
        if isinstance(o, SymInt):
            raise Unsupported("symbolic*symbolic")
        return SymInt(self.e * SymInt.ze(o))

    __rmul__ = __mul__

    def __lt__(self, o):
        if not isinstance(o, (int, SymInt)):
            return NotImplemented  # Python then raises TypeError, as for a real int
        return sb(self.e < SymInt.ze(o))

    def __le__(self, o):
        if not isinstance(o, (int, SymInt)):
            return NotImplemented  # Python then raises TypeError, as for a real int
        return sb(self.e <= SymInt.ze(o))

    def __gt__(self, o):
        if not isinstance(o, (int, SymInt)):
            return NotImplemented  # Python then raises TypeError, as for a real int
        return sb(self.e > SymInt.ze(o))

    def __ge__(self, o):
        if not isinstance(o, (int, SymInt)):
            return NotImplemented  # Python then raises TypeError, as for a real int
        return sb(self.e >= SymInt.ze(o))

    def __eq__(self, o):
        if isinstance(o, (int, SymInt)):
            return sb(self.e == SymInt.ze(o))
        return False

    def __ne__(self, o):
        if isinstance(o, (int, SymInt)):
            return sb(self.e != SymInt.ze(o))
        return True

    def __hash__(self):
        raise TypeError("SymInt unhashable")

    def __bool__(self):
        return Engine.cur.decide(self.e != 0)

    def __index__(self):
        raise Unsupported("SymInt used as index")

    def __repr__(self):
        return "SymInt(%s)" % self.e


# ---------------------------------------------------------------- per-character tables (from the running interpreter)
def mapping_table(fn):
    singles, multis = {}, {}
    for c in UNIVERSE:
        r = fn(chr(c))
        if len(r) == 1:
            if ord(r) != c:
                singles[c] = ord(r)
        else:
            multis[c] = [ord(x) for x in r]
    # group singles into offset ranges
    groups = {}
    for k, v in singles.items():
        groups.setdefault(v - k, []).append(k)
    glist = [(off, ranges_of_pts(ks)) for off, ks in groups.items()]
    return singles, multis, glist


LOWER = mapping_table(str.lower)
UPPER = mapping_table(str.upper)
TITLE = mapping_table(str.title)
CASEFOLD = mapping_table(str.casefold)

PRED = {
    n: ranges_of(getattr(str, n))
    for n in ["isdigit", "isalpha", "isalnum", "isupper", "islower", "isspace", "isdecimal", "isnumeric", "isprintable"]
}
ID_START = ranges_of(lambda ch: ch.isidentifier())
ID_CONT = ranges_of(lambda ch: ("a" + ch).isidentifier())
# characters that str.splitlines() treats as line boundaries
LINEBREAKS = ranges_of(lambda ch: len(("a" + ch + "b").splitlines()) == 2)
CASED = ranges_of(lambda ch: ch.isupper() or ch.islower() or ch.istitle())


def map_char(c, table):
    singles, multis, glist = table
    if isinstance(c, int):
        if c in multis:
            return list(multis[c])
        return [singles.get(c, c)]
    e = Engine.cur
    for m, res in multis.items():
        if e.decide(c == m):
            return list(res)
    out = c
    for off, rs in glist:
        out = z3.If(e.in_ranges(c, rs), c + off, out)
    return [out]


def zin(c, ranges):
    r = Engine.cur.in_ranges(c, ranges)
    if isinstance(r, bool):
        return _TRUE if r else _FALSE
    return r


def is_symchar(c):
    return not isinstance(c, int)


def char_eq(a, b):
    if isinstance(a, int) and isinstance(b, int):
        return a == b
    return a == b


# ---------------------------------------------------------------- SymStr
def _is_lt(ch):
    """titlecase LETTER (category Lt): what CPython's str.isupper / islower test per character (str.istitle() of a
    one-character string is also true for plain uppercase letters)"""
    import unicodedata

    return unicodedata.category(ch) == "Lt"


class SymStr:
    __slots__ = ("cs",)

    def __init__(self, cs):
        self.cs = tuple(cs)

    @staticmethod
    def lift(x):
        if type(x) is SymStr:
            return x
        if isinstance(x, str):
            return SymStr([ord(c) for c in x])
        raise Unsupported("cannot lift %r to SymStr" % type(x))

    def is_concrete(self):
        return all(isinstance(c, int) for c in self.cs)

    def concrete(self):
        return "".join(chr(c) for c in self.cs)

    def simp(self):
        """Return a real str if fully concrete."""
        return self.concrete() if self.is_concrete() else self

    def __len__(self):
        return len(self.cs)

    def __bool__(self):
        return len(self.cs) > 0

    def __hash__(self):
        raise Unsupported("SymStr hashed: symbolic dict key / set member reached uninstrumented code")

    def __iter__(self):
        return iter([_mk([c]) for c in self.cs])

    def __getitem__(self, i):
        if isinstance(i, slice):
            return _mk(self.cs[i])
        if isinstance(i, SymInt):
            raise Unsupported("symbolic index into SymStr")
        return _mk([self.cs[i]])

    def __add__(self, o):
        if not isinstance(o, (str, SymStr)):
            return NotImplemented
        return _mk(self.cs + SymStr.lift(o).cs)

    def __radd__(self, o):
        if not isinstance(o, (str, SymStr)):
            return NotImplemented
        return _mk(SymStr.lift(o).cs + self.cs)

    def __mul__(self, n):
        if not isinstance(n, int):
            raise Unsupported("SymStr * %r" % type(n))
        return _mk(self.cs * n)

    __rmul__ = __mul__

    def __mod__(self, o):
        raise Unsupported("SymStr % formatting")

    def __rmod__(self, o):
        raise Unsupported("'..' % SymStr formatting")

    def eq_expr(self, o):
        o = SymStr.lift(o)
        if len(o.cs) != len(self.cs):
            return False
        conj = []
        for a, b in zip(self.cs, o.cs):
            if isinstance(a, int) and isinstance(b, int):
                if a != b:
                    return False
            elif a is b:
                continue
            else:
                conj.append(a == b)
        if not conj:
            return True
        return z3.And(conj) if len(conj) > 1 else conj[0]

    def __eq__(self, o):
        if not isinstance(o, (str, SymStr)):
            return False
        return sb(self.eq_expr(o))

    def __ne__(self, o):
        if not isinstance(o, (str, SymStr)):
            return True
        return s_not(sb(self.eq_expr(o)))

    def _cmp_lt(self, o, or_equal):
        o = SymStr.lift(o)
        for a, b in zip(self.cs, o.cs):
            if isinstance(a, int) and isinstance(b, int):
                if a != b:
                    return a < b
                continue
            if Engine.cur.decide(a != b):
                return Engine.cur.decide(a < b)
        if len(self.cs) == len(o.cs):
            return or_equal
        return len(self.cs) < len(o.cs)

    def __lt__(self, o):
        return self._cmp_lt(o, False)

    def __le__(self, o):
        return self._cmp_lt(o, True)

    def __gt__(self, o):
        return SymStr.lift(o)._cmp_lt(self, False)

    def __ge__(self, o):
        return SymStr.lift(o)._cmp_lt(self, True)

    def __contains__(self, sub):
        return bool(self.contains_expr(sub))

    def contains_expr(self, sub):
        sub = SymStr.lift(sub)
        k = len(sub.cs)
        if k == 0:
            return True
        return s_or(*[sb(_mk(self.cs[i : i + k]).eq_expr(sub)) for i in range(len(self.cs) - k + 1)])

    # --- predicates
    def _pred_all(self, name):
        if not self.cs:
            return False
        return s_and(*[sb(zin(c, PRED[name])) for c in self.cs])

    def isdigit(self):
        return self._pred_all("isdigit")

    def isdecimal(self):
        return self._pred_all("isdecimal")

    def isnumeric(self):
        return self._pred_all("isnumeric")

    def isalnum(self):
        return self._pred_all("isalnum")

    def isalpha(self):
        return self._pred_all("isalpha")

    def isspace(self):
        return self._pred_all("isspace")

    def isprintable(self):
        if not self.cs:
            return True
        return self._pred_all("isprintable")

    def isascii(self):
        return s_and(*[sb(zin(c, ((0, 127),))) for c in self.cs])

    def isupper(self):
        if not self.cs:
            return False
        up = ranges_of(lambda ch: ch.isupper())
        lowt = ranges_of(lambda ch: ch.islower() or _is_lt(ch))
        return s_and(s_or(*[sb(zin(c, up)) for c in self.cs]), *[s_not(sb(zin(c, lowt))) for c in self.cs])

    def islower(self):
        if not self.cs:
            return False
        lo = ranges_of(lambda ch: ch.islower())
        upt = ranges_of(lambda ch: ch.isupper() or _is_lt(ch))
        return s_and(s_or(*[sb(zin(c, lo)) for c in self.cs]), *[s_not(sb(zin(c, upt))) for c in self.cs])

    def isidentifier(self):
        if not self.cs:
            return False
        return s_and(sb(zin(self.cs[0], ID_START)), *[sb(zin(c, ID_CONT)) for c in self.cs[1:]])

    # --- mappings
    def _map(self, table):
        out = []
        for c in self.cs:
            out.extend(map_char(c, table))
        return _mk(out)

    def lower(self):
        # str.lower has one context-sensitive rule (final sigma) which is outside SIGMA
        return self._map(LOWER)

    def upper(self):
        return self._map(UPPER)

    def casefold(self):
        return self._map(CASEFOLD)

    def capitalize(self):
        if not self.cs:
            return self
        # CPython >= 3.8: first char title-cased, rest lower-cased
        return _mk(map_char(self.cs[0], TITLE) + list(_mk(self.cs[1:]).lower().cs))

    def title(self):
        out = []
        prev_cased = False
        e = Engine.cur
        for c in self.cs:
            if prev_cased:
                out.extend(map_char(c, LOWER))
            else:
                out.extend(map_char(c, TITLE))
            prev_cased = (c in _pts(CASED)) if isinstance(c, int) else e.decide(zin(c, CASED))
        return _mk(out)

    def swapcase(self):
        raise Unsupported("swapcase")

    # --- stripping
    def _strip_set(self, chars):
        if chars is None:
            return PRED["isspace"]
        chars = SymStr.lift(chars)
        if not chars.is_concrete():
            raise Unsupported("strip with symbolic chars")
        return ranges_of_pts(set(chars.cs))

    def lstrip(self, chars=None):
        rs = self._strip_set(chars)
        i = 0
        e = Engine.cur
        while i < len(self.cs) and e.decide(zin(self.cs[i], rs)):
            i += 1
        return _mk(self.cs[i:])

    def rstrip(self, chars=None):
        rs = self._strip_set(chars)
        j = len(self.cs)
        e = Engine.cur
        while j > 0 and e.decide(zin(self.cs[j - 1], rs)):
            j -= 1
        return _mk(self.cs[:j])

    def strip(self, chars=None):
        return self.lstrip(chars).rstrip(chars)

    def removeprefix(self, p):
        if self.startswith(p):
            return _mk(self.cs[len(p) :])
        return self

    def removesuffix(self, p):
        if len(p) and self.endswith(p):
            return _mk(self.cs[: len(self.cs) - len(p)])
        return self

    def startswith(self, p, start=0):
        if isinstance(p, tuple):
            return any(self.startswith(x, start) for x in p)
        p = SymStr.lift(p)
        if start + len(p) > len(self):
            return False
        return bool(_mk(self.cs[start : start + len(p)]) == p)

    def endswith(self, p):
        if isinstance(p, tuple):
            return any(self.endswith(x) for x in p)
        p = SymStr.lift(p)
        if len(p) > len(self):
            return False
        return bool(_mk(self.cs[len(self) - len(p) :]) == p)

    def find(self, sub, start=0):
        sub = SymStr.lift(sub)
        k = len(sub.cs)
        for i in range(start, len(self.cs) - k + 1):
            if bool(_mk(self.cs[i : i + k]) == sub):
                return i
        return -1

    def rfind(self, sub):
        sub = SymStr.lift(sub)
        k = len(sub.cs)
        for i in range(len(self.cs) - k, -1, -1):
            if bool(_mk(self.cs[i : i + k]) == sub):
                return i
        return -1

    def index(self, sub, start=0):
        i = self.find(sub, start)
        if i < 0:
            raise ValueError("substring not found")
        return i

    def count(self, sub):
        sub = SymStr.lift(sub)
        k = len(sub.cs)
        if k == 0:
            return len(self.cs) + 1
        n = 0
        i = 0
        while i + k <= len(self.cs):
            if bool(_mk(self.cs[i : i + k]) == sub):
                n += 1
                i += k
            else:
                i += 1
        return n

    def replace(self, old, new, count=-1):
        old = SymStr.lift(old)
        new = SymStr.lift(new)
        out = []
        i = 0
        k = len(old.cs)
        n = 0
        if k == 0:
            raise Unsupported("replace with empty pattern")
        while i < len(self.cs):
            if (count < 0 or n < count) and i + k <= len(self.cs) and bool(_mk(self.cs[i : i + k]) == old):
                out.extend(new.cs)
                i += k
                n += 1
            else:
                out.append(self.cs[i])
                i += 1
        return _mk(out)

    def split(self, sep=None, maxsplit=-1):
        e = Engine.cur
        if sep is None:
            ws = PRED["isspace"]
            out = []
            cur = []
            i = 0
            n = len(self.cs)
            while i < n:
                c = self.cs[i]
                if e.decide(zin(c, ws)):
                    if cur:
                        out.append(_mk(cur))
                        cur = []
                        if maxsplit >= 0 and len(out) >= maxsplit:
                            # remainder, left-stripped
                            rest = _mk(self.cs[i:]).lstrip()
                            if len(rest):
                                out.append(rest)
                            return out
                    i += 1
                else:
                    cur.append(c)
                    i += 1
            if cur:
                out.append(_mk(cur))
            return out
        sep = SymStr.lift(sep)
        out = []
        i = 0
        last = 0
        n = len(self.cs)
        k = len(sep.cs)
        if k == 0:
            raise ValueError("empty separator")
        while i + k <= n:
            if (maxsplit < 0 or len(out) < maxsplit) and bool(_mk(self.cs[i : i + k]) == sep):
                out.append(_mk(self.cs[last:i]))
                i += k
                last = i
            else:
                i += 1
        out.append(_mk(self.cs[last:]))
        return out

    def rsplit(self, sep=None, maxsplit=-1):
        if maxsplit < 0:
            return self.split(sep)
        if sep is None:
            raise Unsupported("rsplit(None, n)")
        sep = SymStr.lift(sep)
        k = len(sep.cs)
        out = []
        j = len(self.cs)
        end = j
        while j - k >= 0 and len(out) < maxsplit:
            if bool(_mk(self.cs[j - k : j]) == sep):
                out.append(_mk(self.cs[j:end]))
                j -= k
                end = j
            else:
                j -= 1
        out.append(_mk(self.cs[:end]))
        out.reverse()
        return out

    def partition(self, sep):
        i = self.find(sep)
        if i < 0:
            return (self, "", "")
        return (_mk(self.cs[:i]), sep, _mk(self.cs[i + len(sep) :]))

    def rpartition(self, sep):
        i = self.rfind(sep)
        if i < 0:
            return ("", "", self)
        return (_mk(self.cs[:i]), sep, _mk(self.cs[i + len(sep) :]))

    def splitlines(self, keepends=False):
        e = Engine.cur
        out = []
        cur = []
        i = 0
        n = len(self.cs)
        while i < n:
            c = self.cs[i]
            if e.decide(zin(c, LINEBREAKS)):
                end = [c]
                # \r\n counts as one
                if i + 1 < n and e.decide(c == 13) and e.decide(self.cs[i + 1] == 10 if is_symchar(self.cs[i + 1]) else _b(self.cs[i + 1] == 10)):
                    end.append(self.cs[i + 1])
                    i += 1
                out.append(_mk(cur + (end if keepends else [])))
                cur = []
            else:
                cur.append(c)
            i += 1
        if cur:
            out.append(_mk(cur))
        return out

    def join(self, items):
        return join(self, items)

    def encode(self, *a, **k):
        raise Unsupported("SymStr.encode")

    def format(self, *a, **k):
        raise Unsupported("SymStr.format")

    def zfill(self, n):
        raise Unsupported("zfill")

    def expandtabs(self, n=8):
        raise Unsupported("expandtabs")

    def __str__(self):
        if self.is_concrete():
            return self.concrete()
        raise Unsupported("str() of symbolic string reached uninstrumented code")

    def __format__(self, spec):
        if self.is_concrete():
            return format(self.concrete(), spec)
        raise Unsupported("format() of symbolic string reached uninstrumented code")

    def __repr__(self):
        return "SymStr(%s)" % ",".join(chr(c) if isinstance(c, int) else "?" for c in self.cs)


def _b(x):
    return _TRUE if x else _FALSE


_PTS_CACHE = {}


def _pts(ranges):
    r = _PTS_CACHE.get(ranges)
    if r is None:
        r = set()
        for lo, hi in ranges:
            r.update(range(lo, hi + 1))
        _PTS_CACHE[ranges] = r
    return r


def _mk(cs):
    return SymStr(cs)


def is_sym(x):
    return type(x) is SymStr


def is_symval(x):
    return type(x) in (SymStr, SymBool, SymInt)


def join(sep, items):
    items = list(items)
    out = []
    sep = SymStr.lift(sep)
    for i, it in enumerate(items):
        if i:
            out.extend(sep.cs)
        out.extend(SymStr.lift(it).cs)
    r = _mk(out)
    return r.simp()


def contains_any(container, s):
    """`s in container` for symbolic s and a concrete iterable of strings (or SymStrs)."""
    s = SymStr.lift(s)
    alts = []
    for k in container:
        if isinstance(k, (str, SymStr)) and len(k) == len(s):
            alts.append(sb(s.eq_expr(k)))
    return s_or(*alts)


def mk_sym_str(n, name="s", ranges=None):
    e = Engine.cur
    s = SymStr([e.fresh_char("%s_%d" % (name, i), ranges) for i in range(n)])
    e.inputs[name] = s
    return s


def mk_sym_int(name="n", lo=None, hi=None):
    e = Engine.cur
    v = SymInt(e.fresh_int(name, lo, hi))
    e.inputs[name] = v
    return v


def mk_sym_bool(name="b"):
    e = Engine.cur
    v = SymBool(e.fresh_bool(name))
    e.inputs[name] = v
    return v


def concretize(v, model):
    """Evaluate a (possibly nested) symbolic value under a model to plain Python data."""
    if type(v) is SymStr:
        return "".join(chr(c if isinstance(c, int) else model.eval(c, model_completion=True).as_long()) for c in v.cs)
    if type(v) is SymBool:
        return z3.is_true(model.eval(v.e, model_completion=True))
    if type(v) is SymInt:
        return model.eval(v.e, model_completion=True).as_long()
    if isinstance(v, z3.BoolRef):
        return z3.is_true(model.eval(v, model_completion=True))
    if isinstance(v, z3.ArithRef):
        return model.eval(v, model_completion=True).as_long()
    if isinstance(v, tuple):
        return tuple(concretize(x, model) for x in v)
    if isinstance(v, list):
        return [concretize(x, model) for x in v]
    if hasattr(v, "_kv"):  # SDict
        return {concretize(k, model): concretize(x, model) for k, x in v._kv}
    if hasattr(v, "_sx_items"):  # SSet
        return {concretize(x, model) for x in v._sx_items()}
    if isinstance(v, dict):
        return {concretize(k, model): concretize(x, model) for k, x in v.items()}
    if isinstance(v, (set, frozenset)):
        return {concretize(x, model) for x in v}
    return v
