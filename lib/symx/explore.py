"""Path exploration driver for symx obligations (single process and multi-process)."""
from __future__ import annotations

import importlib
import multiprocessing as mp
import os
import time
import traceback

import z3

from .core import Abort, Engine, Inconclusive, SymBool, Unsupported, concretize, zb


class Obligation:
    """One solver-decided claim about a kernel of the real code.

    Subclasses define:
      name            unique id
      make_inputs(e)  -> dict name->symbolic value (use mk_sym_str / mk_sym_int / e.choose ...)
      run_sym(inp)    -> result of the INSTRUMENTED real code on symbolic inputs
      run_real(inp)   -> result of the UNINSTRUMENTED real code on concrete inputs
      prop(inp, res)  -> truthy iff the property holds (plain Python; may fork on symbolic values)
      known(inp, res) -> label of a listed known finding this case falls under, or None (may fork)
      functions       list of "module:qualname" encoded (for evidence)
      bounds          dict describing the bound of this obligation
    """

    name = "?"
    functions: list = []
    bounds: dict = {}
    max_paths = 10**9
    timeout_ms = 20000
    alphabet = None  # ranges; None = full SIGMA

    def make_inputs(self, e):
        raise NotImplementedError

    def run_sym(self, inp):
        raise NotImplementedError

    def run_real(self, inp):
        raise NotImplementedError

    def prop(self, inp, res):
        raise NotImplementedError

    def known(self, inp, res):
        return None

    def normalise(self, res):
        """Make results of run_sym (after concretize) and run_real comparable."""
        return res

    def describe_violation(self, inp, res):
        return "property false"


class Raised:
    """Result wrapper: the kernel raised an ordinary exception."""

    def __init__(self, exc):
        self.kind = type(exc).__name__
        self.msg = str(exc)[:200] if not _msg_symbolic(exc) else "<symbolic>"

    def __eq__(self, o):
        return isinstance(o, Raised) and o.kind == self.kind

    def __repr__(self):
        return "Raised(%s)" % self.kind

    def __bool__(self):
        return True


def _msg_symbolic(exc):
    try:
        str(exc)
        return False
    except BaseException:
        return True


def call_catching(fn, *a, **k):
    try:
        return fn(*a, **k)
    except Exception as ex:  # ordinary exceptions are results; engine signals are BaseException
        return Raised(ex)


class Stats:
    def __init__(self, name):
        self.name = name
        self.paths = 0
        self.reached = 0
        self.decisions = 0
        self.checks = 0
        self.solver_s = 0.0
        self.wall_s = 0.0
        self.validated = 0
        self.violations = []  # list of dict(inputs, result, detail)
        self.known = {}  # label -> list of sample inputs (<=3) + count
        self.known_counts = {}
        self.inconclusive = []  # messages
        self.harness_errors = []
        self.samples = []
        self.truncated = False

    def merge(self, o):
        self.paths += o.paths
        self.reached += o.reached
        self.decisions += o.decisions
        self.checks += o.checks
        self.solver_s += o.solver_s
        self.wall_s += o.wall_s
        self.validated += o.validated
        self.violations.extend(o.violations)
        for k, v in o.known.items():
            self.known.setdefault(k, [])
            if len(self.known[k]) < 3:
                self.known[k].extend(v[: 3 - len(self.known[k])])
        for k, v in o.known_counts.items():
            self.known_counts[k] = self.known_counts.get(k, 0) + v
        for m in o.inconclusive:
            if m not in self.inconclusive and len(self.inconclusive) < 20:
                self.inconclusive.append(m)
        self.harness_errors.extend(o.harness_errors)
        if len(self.samples) < 5:
            self.samples.extend(o.samples[: 5 - len(self.samples)])
        self.truncated = self.truncated or o.truncated

    def to_json(self):
        return {
            "obligation": self.name,
            "paths": self.paths,
            "reached_assertion": self.reached,
            "decisions": self.decisions,
            "solver_queries": self.checks,
            "solver_s": round(self.solver_s, 3),
            "wall_s": round(self.wall_s, 3),
            "path_witnesses_validated": self.validated,
            "violations": len(self.violations),
            "known_findings_hit": dict(self.known_counts),
            "inconclusive": self.inconclusive,
            "harness_errors": self.harness_errors[:5],
            "truncated": self.truncated,
        }


def _jsonable(v):
    if isinstance(v, (str, int, float, bool)) or v is None:
        return v
    if isinstance(v, (list, tuple)):
        return [_jsonable(x) for x in v]
    if isinstance(v, (set, frozenset)):
        return sorted((_jsonable(x) for x in v), key=repr)
    if isinstance(v, dict):
        return {str(k): _jsonable(x) for k, x in v.items()}
    return repr(v)


def explore(ob: Obligation, prefixes=None, harvest=None, deadline=None, slice_s=None):
    """Explore all paths of `ob` extending the given decision prefixes (default: the empty prefix).

    harvest=N: stop as soon as >= N prefixes are pending and return them (for work distribution).
    Returns (Stats, leftover_prefixes).
    """
    e = Engine(alphabet_ranges=ob.alphabet, timeout_ms=ob.timeout_ms)
    e.pending = [list(p) for p in (prefixes if prefixes is not None else [[]])]
    st = Stats(ob.name)
    t0 = time.time()
    while e.pending:
        if harvest is not None and len(e.pending) >= harvest:
            break
        if slice_s is not None and time.time() - t0 > slice_s and st.paths > 0:
            break  # hand the remaining prefixes back for re-distribution
        if st.paths >= ob.max_paths or (deadline is not None and time.time() > deadline):
            st.truncated = True
            st.inconclusive.append("exploration truncated (max_paths/deadline) with %d prefixes pending" % len(e.pending))
            break
        # BFS-ish while harvesting (shallow prefixes first), DFS otherwise
        plan = e.pending.pop(0) if harvest is not None else e.pending.pop()
        e.start(plan)
        st.paths += 1
        try:
            inp = ob.make_inputs(e)
            res = ob.run_sym(inp)
            label = ob.known(inp, res)
            p = ob.prop(inp, res)
            st.reached += 1
            # --- final query: can the property be false on this path?
            if isinstance(p, SymBool):
                model = e.check_sat(z3.Not(p.e))
            elif isinstance(p, z3.BoolRef):
                model = e.check_sat(z3.Not(p))
            else:
                model = None if p else e._ensure_model()
            if model is not None:
                _handle_cex(ob, e, st, inp, res, label, model)
            # --- path witness validation against the real code
            m2 = e._ensure_model()
            _validate(ob, st, inp, res, m2)
        except Abort:
            pass
        except Unsupported as ex:
            msg = "Unsupported: %s" % (ex,)
            if msg not in st.inconclusive and len(st.inconclusive) < 20:
                st.inconclusive.append(msg)
        except Inconclusive as ex:
            msg = "Inconclusive: %s" % (ex,)
            if msg not in st.inconclusive and len(st.inconclusive) < 20:
                st.inconclusive.append(msg)
        except RecursionError:
            st.inconclusive.append("RecursionError in harness")
        except Exception as ex:  # a bug in harness / an exception escaping outside call_catching
            tb = traceback.format_exc(limit=6)
            st.harness_errors.append("exception on path %d: %r\n%s" % (st.paths, ex, tb))
            if len(st.harness_errors) > 5:
                break
        st.decisions += e.decisions
        e.decisions = 0
    st.checks = e.checks
    st.solver_s = e.solver_time
    st.wall_s = time.time() - t0
    return st, e.pending


def _handle_cex(ob, e, st, inp, res, label, model):
    cin = {k: concretize(v, model) for k, v in inp.items()}
    # replay on the real, uninstrumented code
    try:
        rres = ob.run_real(cin)
        holds = bool(ob.prop(cin, rres))
        rlabel = ob.known(cin, rres)
    except (Unsupported, Inconclusive, Abort) as ex:
        st.harness_errors.append("replay raised engine signal %r for %r" % (ex, cin))
        return
    if holds:
        st.harness_errors.append(
            "counterexample does not reproduce on real code: inputs=%r symbolic_result=%r real_result=%r"
            % (cin, _safe_conc(res, model), rres)
        )
        return
    rec = {"inputs": _jsonable(cin), "result": _jsonable(ob.normalise(rres)), "detail": ob.describe_violation(cin, rres)}
    if rlabel is not None:
        st.known_counts[rlabel] = st.known_counts.get(rlabel, 0) + 1
        lst = st.known.setdefault(rlabel, [])
        if len(lst) < 3:
            lst.append(rec)
    else:
        if len(st.violations) < 50:
            st.violations.append(rec)


def _safe_conc(res, model):
    try:
        return concretize(res, model)
    except BaseException as ex:
        return "<%r>" % (ex,)


def _validate(ob, st, inp, res, model):
    cin = {k: concretize(v, model) for k, v in inp.items()}
    sres = ob.normalise(concretize(res, model))
    rres = ob.normalise(ob.run_real(cin))
    if sres != rres:
        st.harness_errors.append("path witness diverges: inputs=%r symbolic=%r real=%r" % (cin, sres, rres))
    else:
        st.validated += 1
        if len(st.samples) < 5:
            st.samples.append({"inputs": _jsonable(cin), "result": _jsonable(rres)})


# ---------------------------------------------------------------- multi-process
def _worker(args):
    spec, prefixes, deadline, slice_s, presplit = args
    try:
        ob = build(spec)
        if presplit:
            # a subtree known to be big: break it into >= 16 prefixes (breadth first) and hand those back at once
            st, left = explore(ob, prefixes, harvest=16, deadline=deadline)
            return spec, st, left
        st, left = explore(ob, prefixes, deadline=deadline, slice_s=slice_s)
        return spec, st, left
    except BaseException as ex:
        st = Stats(str(spec))
        st.harness_errors.append("worker crashed: %r\n%s" % (ex, traceback.format_exc(limit=8)))
        return spec, st, []


def build(spec):
    """spec = (module, factory, args tuple) -> Obligation"""
    mod, fac, args = spec
    m = importlib.import_module(mod)
    return getattr(m, fac)(*args)


def run_all(specs, procs=None, split=24, budget_s=None, log=None, slice_s=8.0):
    """Run obligations given as picklable specs.  Big obligations are split into decision prefixes which are farmed out to
    a process pool; a job that runs longer than `slice_s` hands its pending prefixes back for re-distribution.
    Returns {name: Stats}."""
    import collections

    procs = procs or min(16, os.cpu_count() or 1)
    deadline = time.time() + budget_s if budget_s else None
    results = {}
    ctx = mp.get_context("fork")
    t0 = time.time()
    names = {}
    with ctx.Pool(procs, maxtasksperchild=400) as pool:
        hv = [pool.apply_async(_harvest, ((s, split, deadline),)) for s in specs]
        queue = collections.deque()
        njobs = 0
        for h in hv:
            spec, st, left = h.get()
            names[spec] = st.name
            results[st.name] = st
            for p in left:
                queue.append(pool.apply_async(_worker, ((spec, [p], deadline, slice_s, False),)))
                njobs += 1
        if log:
            log("harvested %d obligations -> %d prefix jobs in %.1fs" % (len(specs), njobs, time.time() - t0))
        while queue:
            r = queue.popleft()
            spec, st, left = r.get()
            results[names[spec]].merge(st)
            # shortest prefixes = shallowest = biggest subtrees: split those first
            left = sorted(left, key=len)
            for i, p in enumerate(left):
                queue.append(pool.apply_async(_worker, ((spec, [p], deadline, slice_s, i < 3 and len(left) > 1),)))
                njobs += 1
        if log:
            log("finished %d jobs in %.1fs" % (njobs, time.time() - t0))
    return results


def _harvest(args):
    spec, split, deadline = args
    try:
        ob = build(spec)
        st, left = explore(ob, None, harvest=split, deadline=deadline)
        return spec, st, left
    except BaseException as ex:
        st = Stats(str(spec))
        st.harness_errors.append("harvest crashed: %r\n%s" % (ex, traceback.format_exc(limit=8)))
        return spec, st, []
