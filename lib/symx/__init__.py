from .core import *  # noqa
from .core import _mk  # noqa
from . import rx, hook, explore  # noqa
