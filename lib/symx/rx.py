"""Backtracking regex matcher over SymStr (symbolic characters, concrete positions).

Patterns are parsed by CPython's own `re._parser`; priority order follows CPython (first alternative
first, greedy repeats longest first, lazy shortest first).  Every character test is a `decide`.
"""
from __future__ import annotations

import re as _re
import re._constants as C
import re._parser as sre_parse

from .core import (
    Engine,
    UNIVERSE as SIGMA,
    SymStr,
    Unsupported,
    neg_ranges,
    norm_ranges,
    ranges_of,
    ranges_of_pts,
    zin,
    is_sym,
)

CAT = {
    C.CATEGORY_DIGIT: ranges_of(lambda ch: _re.match(r"\d", ch) is not None),
    C.CATEGORY_WORD: ranges_of(lambda ch: _re.match(r"\w", ch) is not None),
    C.CATEGORY_SPACE: ranges_of(lambda ch: _re.match(r"\s", ch) is not None),
}
CAT[C.CATEGORY_NOT_DIGIT] = neg_ranges(CAT[C.CATEGORY_DIGIT])
CAT[C.CATEGORY_NOT_WORD] = neg_ranges(CAT[C.CATEGORY_WORD])
CAT[C.CATEGORY_NOT_SPACE] = neg_ranges(CAT[C.CATEGORY_SPACE])
WORD = CAT[C.CATEGORY_WORD]
NL = ((10, 10),)
NOT_NL = neg_ranges(NL)
ALL = ranges_of(lambda ch: True)

_SET_CACHE = {}


def in_set_ranges(items, ignorecase=False):
    key = (repr(items), ignorecase)
    r = _SET_CACHE.get(key)
    if r is not None:
        return r
    negate = False
    pts = set()
    for op, av in items:
        if op is C.NEGATE:
            negate = True
        elif op is C.LITERAL:
            pts.add(av)
        elif op is C.RANGE:
            lo, hi = av
            pts.update(c for c in SIGMA if lo <= c <= hi)
        elif op is C.CATEGORY:
            for lo, hi in CAT[av]:
                pts.update(range(lo, hi + 1))
        else:
            raise Unsupported("regex set item %s" % (op,))
    if ignorecase:
        pts = _case_closure(pts)
    if negate:
        r = ranges_of_pts([c for c in SIGMA if c not in pts])
    else:
        r = ranges_of_pts([c for c in SIGMA if c in pts])
    _SET_CACHE[key] = r
    return r


def _case_closure(pts):
    out = set(pts)
    for c in SIGMA:
        ch = chr(c)
        for v in (ch.lower(), ch.upper()):
            if len(v) == 1 and ord(v) in pts:
                out.add(c)
    return out


class Rx:
    _cache = {}

    @classmethod
    def get(cls, pattern, flags=0):
        if isinstance(pattern, _re.Pattern):
            flags = pattern.flags & ~_re.UNICODE if flags == 0 else flags
            pattern = pattern.pattern
        if not isinstance(pattern, str):
            raise Unsupported("regex pattern of type %r" % type(pattern))
        key = (pattern, int(flags))
        r = cls._cache.get(key)
        if r is None:
            r = cls(pattern, int(flags))
            cls._cache[key] = r
        return r

    def __init__(self, pattern, flags=0):
        self.pattern = pattern
        self.p = sre_parse.parse(pattern, flags)
        self.flags = self.p.state.flags
        self.ngroups = self.p.state.groups  # counts group 0
        self.groupdict = dict(self.p.state.groupdict)
        if self.flags & (_re.VERBOSE | _re.ASCII | _re.LOCALE) & ~_re.VERBOSE:
            raise Unsupported("regex flags %r" % self.flags)
        self.ic = bool(self.flags & _re.IGNORECASE)
        self.ml = bool(self.flags & _re.MULTILINE)
        self.dotall = bool(self.flags & _re.DOTALL)

    def m(self, seq, idx, s, pos, groups):
        """generator of (end, groups) for matching seq[idx:] at pos"""
        if idx == len(seq):
            yield pos, groups
            return
        op, av = seq[idx]
        e = Engine.cur
        cs = s.cs

        def test(rs):
            if pos >= len(cs):
                return False
            c = cs[pos]
            if isinstance(c, int):
                return any(lo <= c <= hi for lo, hi in rs)
            return e.decide(zin(c, rs))

        if op is C.LITERAL:
            rs = ((av, av),) if not self.ic else ranges_of_pts(_case_closure({av}) & set(SIGMA))
            if test(rs):
                yield from self.m(seq, idx + 1, s, pos + 1, groups)
        elif op is C.NOT_LITERAL:
            rs = neg_ranges(((av, av),) if not self.ic else ranges_of_pts(_case_closure({av}) & set(SIGMA)))
            if test(rs):
                yield from self.m(seq, idx + 1, s, pos + 1, groups)
        elif op is C.ANY:
            if test(ALL if self.dotall else NOT_NL):
                yield from self.m(seq, idx + 1, s, pos + 1, groups)
        elif op is C.IN:
            if test(in_set_ranges(av, self.ic)):
                yield from self.m(seq, idx + 1, s, pos + 1, groups)
        elif op is C.SUBPATTERN:
            g, add_flags, del_flags, sub = av
            if add_flags or del_flags:
                raise Unsupported("inline regex flags")
            for end, gs in self.m(list(sub), 0, s, pos, groups):
                if g is not None:
                    gs = dict(gs)
                    gs[g] = (pos, end)
                yield from self.m(seq, idx + 1, s, end, gs)
        elif op is C.BRANCH:
            for alt in av[1]:
                for end, gs in self.m(list(alt), 0, s, pos, groups):
                    yield from self.m(seq, idx + 1, s, end, gs)
        elif op in (C.MAX_REPEAT, C.MIN_REPEAT):
            lo, hi, sub = av
            sub = list(sub)
            greedy = op is C.MAX_REPEAT

            def rep(count, p, gs):
                if greedy:
                    if count < hi:
                        for end, gs2 in self.m(sub, 0, s, p, gs):
                            if end == p and count >= lo:
                                continue
                            yield from rep(count + 1, end, gs2)
                    if count >= lo:
                        yield p, gs
                else:
                    if count >= lo:
                        yield p, gs
                    if count < hi:
                        for end, gs2 in self.m(sub, 0, s, p, gs):
                            if end == p and count >= lo:
                                continue
                            yield from rep(count + 1, end, gs2)

            for end, gs in rep(0, pos, groups):
                yield from self.m(seq, idx + 1, s, end, gs)
        elif op in (C.ASSERT, C.ASSERT_NOT):
            d, sub = av
            sub = list(sub)
            ok = False
            if d == 1:
                for _ in self.m(sub, 0, s, pos, groups):
                    ok = True
                    break
            else:
                lo, hi = av[1].getwidth()
                if lo != hi:
                    raise Unsupported("variable-width lookbehind")
                if pos - lo >= 0:
                    for end, _ in self.m(sub, 0, s, pos - lo, groups):
                        if end == pos:
                            ok = True
                            break
            if ok == (op is C.ASSERT):
                yield from self.m(seq, idx + 1, s, pos, groups)
        elif op is C.AT:
            n = len(cs)
            if av in (C.AT_BEGINNING, C.AT_BEGINNING_STRING):
                ok = pos == 0
                if not ok and av is C.AT_BEGINNING and self.ml:
                    ok = self._is(cs[pos - 1], NL)
            elif av is C.AT_END_STRING:
                ok = pos == n
            elif av is C.AT_END:
                ok = pos == n or (pos == n - 1 and self._is(cs[pos], NL))
                if not ok and self.ml and pos < n:
                    ok = self._is(cs[pos], NL)
            elif av in (C.AT_BOUNDARY, C.AT_NON_BOUNDARY):
                before = pos > 0 and self._is(cs[pos - 1], WORD)
                after = pos < n and self._is(cs[pos], WORD)
                ok = (before != after) == (av is C.AT_BOUNDARY)
            else:
                raise Unsupported("regex AT %s" % (av,))
            if ok:
                yield from self.m(seq, idx + 1, s, pos, groups)
        elif op is C.GROUPREF:
            if av not in groups:
                return
            a, b = groups[av]
            k = b - a
            if pos + k <= len(cs) and bool(SymStr(cs[pos : pos + k]) == SymStr(cs[a:b])):
                yield from self.m(seq, idx + 1, s, pos + k, groups)
        else:
            raise Unsupported("regex op %s" % (op,))

    @staticmethod
    def _is(c, rs):
        if isinstance(c, int):
            return any(lo <= c <= hi for lo, hi in rs)
        return Engine.cur.decide(zin(c, rs))

    def match_at(self, s, pos, full=False):
        seq = list(self.p)
        for end, gs in self.m(seq, 0, s, pos, {}):
            if full and end != len(s.cs):
                continue
            return end, gs
        return None

    def finditer(self, s, start=0):
        pos = start
        n = len(s.cs)
        while pos <= n:
            r = self.match_at(s, pos)
            if r is None:
                pos += 1
                continue
            end, gs = r
            yield pos, end, gs
            if end > pos:
                pos = end
            else:
                # empty match: CPython (>=3.7) allows a non-empty match right after an empty one at the same pos;
                # retrying at pos for a non-empty match:
                r2 = None
                for e2, g2 in self.m(list(self.p), 0, s, pos, {}):
                    if e2 > pos:
                        r2 = (e2, g2)
                        break
                if r2 is not None:
                    yield pos, r2[0], r2[1]
                    pos = r2[0]
                else:
                    pos += 1


class Match:
    def __init__(self, rx, s, st, end, gs):
        self.rx, self.s, self.st, self.e, self.gs = rx, s, st, end, gs
        self.string = s

    def _gi(self, i):
        if isinstance(i, str):
            return self.rx.groupdict[i]
        return i

    def group(self, *idx):
        if not idx:
            idx = (0,)
        res = []
        for i in idx:
            i = self._gi(i)
            if i == 0:
                res.append(SymStr(self.s.cs[self.st : self.e]).simp())
            elif i not in self.gs:
                if i >= self.rx.ngroups:
                    raise IndexError("no such group")
                res.append(None)
            else:
                a, b = self.gs[i]
                res.append(SymStr(self.s.cs[a:b]).simp())
        return res[0] if len(res) == 1 else tuple(res)

    __getitem__ = group

    def groups(self, default=None):
        return tuple(
            (SymStr(self.s.cs[self.gs[i][0] : self.gs[i][1]]).simp() if i in self.gs else default)
            for i in range(1, self.rx.ngroups)
        )

    def groupdict(self, default=None):
        return {k: (self.group(v) if v in self.gs else default) for k, v in self.rx.groupdict.items()}

    def start(self, i=0):
        i = self._gi(i)
        return self.st if i == 0 else (self.gs[i][0] if i in self.gs else -1)

    def end(self, i=0):
        i = self._gi(i)
        return self.e if i == 0 else (self.gs[i][1] if i in self.gs else -1)

    def span(self, i=0):
        return (self.start(i), self.end(i))

    def __bool__(self):
        return True


def _template(rx, repl):
    # parse with CPython's own template parser
    compiled = _re.compile(rx.pattern, rx.flags & (_re.IGNORECASE | _re.MULTILINE | _re.DOTALL))
    return sre_parse.parse_template(repl, compiled)


def expand(rx, repl, m):
    if callable(repl):
        r = repl(m)
        return SymStr.lift(r)
    if is_sym(repl):
        if not repl.is_concrete():
            # a symbolic replacement without backslashes is literal; with a backslash it is a template
            if bool(repl.contains_expr("\\")):
                raise Unsupported("symbolic replacement template containing a backslash")
            return repl
        repl = repl.concrete()
    out = []
    for part in _template(rx, repl):
        if isinstance(part, int):
            g = m.group(part)
            if g is not None:
                out.extend(SymStr.lift(g).cs)
        elif part:
            out.extend(ord(c) for c in part)
    return SymStr(out)


def _lift_subject(s):
    return SymStr.lift(s)


def _any_sym(*xs):
    return any(is_sym(x) and not x.is_concrete() for x in xs)


def _concrete_args(*xs):
    return [x.concrete() if is_sym(x) else x for x in xs]


def sub(pattern, repl, string, count=0, flags=0):
    if not _any_sym(string, repl if not callable(repl) else None):
        pattern, repl, string = _concrete_args(pattern, repl, string)
        if not callable(repl) or not is_sym(string):
            return _re.sub(pattern, repl, string, count, flags)
    rx = Rx.get(pattern, flags)
    s = _lift_subject(string)
    out = []
    last = 0
    n = 0
    for st, end, gs in rx.finditer(s):
        out.extend(s.cs[last:st])
        out.extend(expand(rx, repl, Match(rx, s, st, end, gs)).cs)
        last = end
        n += 1
        if count and n >= count:
            break
    out.extend(s.cs[last:])
    return SymStr(out).simp()


def findall(pattern, string, flags=0):
    if not _any_sym(string):
        return _re.findall(*_concrete_args(pattern, string), flags)
    rx = Rx.get(pattern, flags)
    s = _lift_subject(string)
    out = []
    for st, end, gs in rx.finditer(s):
        m = Match(rx, s, st, end, gs)
        if rx.ngroups == 1:
            out.append(m.group(0))
        elif rx.ngroups == 2:
            out.append(m.groups("")[0])
        else:
            out.append(m.groups(""))
    return out


def finditer(pattern, string, flags=0):
    if not _any_sym(string):
        return _re.finditer(*_concrete_args(pattern, string), flags)
    rx = Rx.get(pattern, flags)
    s = _lift_subject(string)
    return iter([Match(rx, s, st, end, gs) for st, end, gs in rx.finditer(s)])


def split(pattern, string, maxsplit=0, flags=0):
    if not _any_sym(string):
        return _re.split(*_concrete_args(pattern, string), maxsplit, flags)
    rx = Rx.get(pattern, flags)
    s = _lift_subject(string)
    out = []
    last = 0
    n = 0
    for st, end, gs in rx.finditer(s):
        if maxsplit and n >= maxsplit:
            break
        out.append(SymStr(s.cs[last:st]).simp())
        m = Match(rx, s, st, end, gs)
        out.extend(m.groups())
        last = end
        n += 1
    out.append(SymStr(s.cs[last:]).simp())
    return out


def match(pattern, string, flags=0):
    if not _any_sym(string):
        return _re.match(*_concrete_args(pattern, string), flags)
    rx = Rx.get(pattern, flags)
    s = _lift_subject(string)
    r = rx.match_at(s, 0)
    return None if r is None else Match(rx, s, 0, r[0], r[1])


def fullmatch(pattern, string, flags=0):
    if not _any_sym(string):
        return _re.fullmatch(*_concrete_args(pattern, string), flags)
    rx = Rx.get(pattern, flags)
    s = _lift_subject(string)
    r = rx.match_at(s, 0, full=True)
    return None if r is None else Match(rx, s, 0, r[0], r[1])


def search(pattern, string, flags=0, start=0):
    if not _any_sym(string):
        if start:
            return _re.compile(_concrete_args(pattern, string)[0], flags).search(_concrete_args(pattern, string)[1], start)
        return _re.search(*_concrete_args(pattern, string), flags)
    rx = Rx.get(pattern, flags)
    s = _lift_subject(string)
    for pos in range(start, len(s.cs) + 1):
        r = rx.match_at(s, pos)
        if r is not None:
            return Match(rx, s, pos, r[0], r[1])
    return None


def escape(s):
    if is_sym(s) and not s.is_concrete():
        raise Unsupported("re.escape of symbolic string")
    return _re.escape(s.concrete() if is_sym(s) else s)


class SymPattern:
    """Stand-in for a compiled pattern whose methods accept SymStr."""

    def __init__(self, pattern, flags=0):
        self._real = _re.compile(pattern, flags)
        self.pattern = self._real.pattern
        self.flags = self._real.flags
        self._f = flags

    def sub(self, repl, string, count=0):
        return sub(self.pattern, repl, string, count, self._f)

    def findall(self, string):
        return findall(self.pattern, string, self._f)

    def finditer(self, string):
        return finditer(self.pattern, string, self._f)

    def split(self, string, maxsplit=0):
        return split(self.pattern, string, maxsplit, self._f)

    def match(self, string):
        return match(self.pattern, string, self._f)

    def fullmatch(self, string):
        return fullmatch(self.pattern, string, self._f)

    def search(self, string, pos=0, endpos=None):
        # Pattern.search(string, pos): the scan starts at pos; the subject (and what ^ / lookbehind see) stays whole
        if endpos is not None:
            raise Unsupported("Pattern.search with endpos")
        if not isinstance(pos, int):
            raise Unsupported("Pattern.search with a symbolic position")
        return search(self.pattern, string, self._f, start=max(0, pos))


def compile(pattern, flags=0):  # noqa: A001
    return SymPattern(pattern, flags)


class FakeRe:
    """Module-like object substituted for `re` in instrumented modules."""

    sub = staticmethod(sub)
    findall = staticmethod(findall)
    finditer = staticmethod(finditer)
    split = staticmethod(split)
    match = staticmethod(match)
    fullmatch = staticmethod(fullmatch)
    search = staticmethod(search)
    escape = staticmethod(escape)
    compile = staticmethod(compile)
    Pattern = _re.Pattern
    Match = _re.Match
    error = _re.error
    IGNORECASE = _re.IGNORECASE
    I = _re.I
    MULTILINE = _re.MULTILINE
    M = _re.M
    DOTALL = _re.DOTALL
    S = _re.S
    VERBOSE = _re.VERBOSE
    X = _re.X
    UNICODE = _re.UNICODE
    ASCII = _re.ASCII
