"""E2: run CrossHair on PEP-316 harness functions, one process per condition, and map verdicts.

Harness conventions (harness files live in /verif/harness/):
  def ob_<name>(args...) -> bool:      '''pre: ...  post: _'''      body calls the real code, returns the property
  def tw_<name>(same args) -> bool:    reachability twin: same pre, same body prefix, returns False at the end
                                       (must come back violated, otherwise the obligation is vacuous)
  KNOWN = {"ob_<name>": lambda **args: label|None}   optional classification of counterexamples
Verdicts: confirmed | violation | inconclusive | harness_error
"""
from __future__ import annotations

import ast
import concurrent.futures as cf
import importlib.util
import os
import re
import subprocess
import sys
import time

from common import VERIF

CROSSHAIR = os.path.join(VERIF, ".venv", "bin", "crosshair")
PY = os.path.join(VERIF, ".venv", "bin", "python")


def _func_lines(path):
    tree = ast.parse(open(path).read())
    out = {}
    for n in tree.body:
        if isinstance(n, ast.FunctionDef):
            out[n.name] = n.lineno
    return out


def _run_one(path, func, line, timeout, env):
    t0 = time.time()
    cmd = [CROSSHAIR, "check", "--report_all", "--per_condition_timeout", str(timeout), "%s:%d" % (path, line + 1)]
    try:
        p = subprocess.run(cmd, stdout=subprocess.PIPE, stderr=subprocess.PIPE, text=True, env=env, timeout=timeout * 3 + 120,
                           cwd=os.path.dirname(path))
        out, err, rc = p.stdout, p.stderr, p.returncode
    except subprocess.TimeoutExpired as ex:
        out, err, rc = (ex.stdout or b"").decode() if isinstance(ex.stdout, bytes) else (ex.stdout or ""), "TIMEOUT", -9
    return {"func": func, "out": out, "err": err[-2000:], "rc": rc, "wall_s": round(time.time() - t0, 2)}


_CEX_ML = re.compile(r"when calling (\w+)\((.*?)\)(?: \(which returns .*\))?\s*$", re.S)
_CEX = re.compile(r"error: (.*) when calling (\w+)\((.*)\)(?: \(which returns (.*)\))?\s*$", re.S)


def classify(raw):
    """-> (verdict, detail, call_args_text)"""
    out = raw["out"].strip()
    lines = [l for l in out.splitlines() if l.strip()]
    if not lines:
        return "inconclusive", "no output (rc=%s, stderr=%s)" % (raw["rc"], raw["err"][-300:]), None
    text = "\n".join(lines)
    if "Confirmed over all paths" in text and "error:" not in text:
        return "confirmed", lines[-1], None
    if ": error: " in text:
        # the message may span several lines (exception texts with embedded newlines)
        body = text.split(": error: ", 1)[1]
        m = _CEX_ML.search(body)
        if m:
            return "violation", " ".join(body.split())[:600], m.group(2)
        return "violation", " ".join(body.split())[:600], None
    if "Unable to meet precondition" in text:
        return "inconclusive", "Unable to meet precondition (vacuous or every path aborted)", None
    if "Not confirmed" in text:
        return "inconclusive", "Not confirmed within the per-condition timeout", None
    return "inconclusive", text[-300:], None


def load_harness(path, modname=None):
    modname = modname or ("xh_" + os.path.basename(path)[:-3])
    spec = importlib.util.spec_from_file_location(modname, path)
    mod = importlib.util.module_from_spec(spec)
    sys.modules[modname] = mod
    spec.loader.exec_module(mod)
    return mod


def replay_native(mod, func, args_text):
    """Re-run the harness function natively (no CrossHair) on the printed counterexample.
    returns (reproduced: bool, detail, kwargs)"""
    f = getattr(mod, func)
    try:
        import inspect

        names = list(inspect.signature(f).parameters)
        # CrossHair prints positional and/or keyword arguments in Python syntax
        call = ast.parse("f(%s)" % args_text, mode="eval").body
        kwargs = {}
        glob = dict(mod.__dict__)
        for i, a in enumerate(call.args):
            kwargs[names[i]] = eval(compile(ast.Expression(a), "<cex>", "eval"), glob)
        for kw in call.keywords:
            kwargs[kw.arg] = eval(compile(ast.Expression(kw.value), "<cex>", "eval"), glob)
    except Exception as ex:  # noqa
        return None, "cannot parse counterexample %r: %r" % (args_text, ex), None
    try:
        r = f(**kwargs)
        return (not r), "returned %r" % (r,), kwargs
    except Exception as ex:  # noqa
        return True, "raised %s: %s" % (type(ex).__name__, str(ex)[:200]), kwargs


def run_conditions(path, funcs, timeout, env_extra=None, procs=16, prop=None, with_twins=True):
    """Run each `ob_*` (and its `tw_*` twin if present) under CrossHair.  Returns list of result dicts."""
    lines = _func_lines(path)
    env = dict(os.environ)
    env["PYTHONPATH"] = os.pathsep.join([os.path.join(VERIF, "lib"), VERIF, env.get("PYTHONPATH", "")])
    env["PYTHONHASHSEED"] = "0"
    if env_extra:
        env.update(env_extra)
    jobs = []
    for f in funcs:
        if f not in lines:
            raise KeyError("harness function %s not in %s" % (f, path))
        jobs.append(f)
        tw = "tw_" + f[3:]
        if with_twins and f.startswith("ob_") and tw in lines:
            jobs.append(tw)
    raws = {}
    with cf.ThreadPoolExecutor(max_workers=procs) as ex:
        futs = {ex.submit(_run_one, path, f, lines[f], timeout, env): f for f in jobs}
        for fu in cf.as_completed(futs):
            raws[futs[fu]] = fu.result()
    # native replay in this process
    for k, v in (env_extra or {}).items():
        os.environ[k] = v
    mod = load_harness(path)
    known = getattr(mod, "KNOWN", {})
    results = []
    for f in funcs:
        raw = raws[f]
        verdict, detail, args_text = classify(raw)
        res = {"obligation": "%s:%s" % (os.path.basename(path), f), "engine": "crosshair", "verdict": verdict, "detail": detail,
               "wall_s": raw["wall_s"], "timeout_s": timeout, "line_text": raw["out"].strip()[-400:], "pre_post": _doc_of(mod, f)}
        tw = "tw_" + f[3:]
        if tw in raws:
            tv, td, _ = classify(raws[tw])
            res["twin"] = tv
            res["wall_s"] = round(res["wall_s"] + raws[tw]["wall_s"], 2)
            if verdict == "confirmed" and tv != "violation":
                res["verdict"] = "inconclusive"
                res["detail"] = "reachability twin not refuted (%s): obligation may be vacuous" % td
        if verdict == "violation":
            if args_text is None:
                res["verdict"] = "harness_error"
                res["detail"] = "counterexample line not parseable: " + detail
            else:
                rep, rdetail, kwargs = replay_native(mod, f, args_text)
                res["cex"] = args_text
                res["replay_result"] = rdetail
                if rep is None:
                    res["verdict"] = "harness_error"
                    res["detail"] = rdetail
                elif not rep:
                    res["verdict"] = "harness_error"
                    res["detail"] = "counterexample %s(%s) does not reproduce natively (%s)" % (f, args_text, rdetail)
                else:
                    kf = known.get(f)
                    if kf is not None:
                        try:
                            res["known_label"] = kf(**kwargs)
                        except Exception as ex:  # noqa
                            res["known_label"] = None
        results.append(res)
    return results


def _doc_of(mod, f):
    d = getattr(mod, f).__doc__ or ""
    return " | ".join(l.strip() for l in d.strip().splitlines() if l.strip())
