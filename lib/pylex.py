"""Reference model of Python's lexical structure, executable on concrete AND symbolic character sequences (C15 oracle).

`lex(cs)` takes a sequence of characters (ints, or z3 Int terms inside a symx path) and returns a LexResult:
  ok        False when CPython's tokenizer/parser would reject the text for a *lexical* reason (unterminated string,
            invalid escape, stray character, unbalanced bracket, bad dedent, NUL byte ...)
  skeleton  token kinds with everything a benign text may legitimately change abstracted away: identifiers -> NAME
            (keywords keep their text), literals -> STR/NUM, comments and blank lines dropped, adjacent string literals
            merged (implicit concatenation)
  strings   for every STR token the decoded value (list of chars) or None (bytes / f-strings)
Every comparison on a symbolic character goes through the engine's `decide`, so one call explores one path class and the
solver decides which classes exist.  The model is validated on every run against CPython (`tokenize`-free: `ast.parse`
+ AST shape + literal values) over a concrete corpus rendered by the real generator (props/c15.py: validate_lexer).
"""
from __future__ import annotations

import keyword
import unicodedata

import z3

from symx.core import ID_CONT, ID_START, Engine, SymStr, Unsupported, ranges_of_pts

_KW = set(keyword.kwlist)
_PREFIXES = {"r", "u", "b", "f", "br", "rb", "fr", "rf"}
_OPCHARS = set("()[]{}:,;.+-*/%&|^~<>=!@")
_HEX = ranges_of_pts([ord(c) for c in "0123456789abcdefABCDEF"])
_OCT = ranges_of_pts([ord(c) for c in "01234567"])
_DIGIT = ranges_of_pts([ord(c) for c in "0123456789"])
_SIMPLE_ESC = {ord("\\"): 92, ord("'"): 39, ord('"'): 34, ord("a"): 7, ord("b"): 8, ord("f"): 12, ord("n"): 10, ord("r"): 13,
               ord("t"): 9, ord("v"): 11}


class LexResult:
    def __init__(self):
        self.ok = True
        self.err = None
        self.skeleton = []
        self.strings = []  # (skeleton index, prefix, value chars | None)
        self.names = {}  # skeleton index -> identifier / number characters (ints or z3 terms), for consumers that need texts

    def fail(self, why, pos):
        self.ok = False
        self.err = "%s at %d" % (why, pos)
        return self


def _conc(c):
    return isinstance(c, int)


def _is(c, k):
    if isinstance(c, int):
        return c == k
    return Engine.cur.decide(c == k)


def _inr(c, ranges):
    if isinstance(c, int):
        return any(lo <= c <= hi for lo, hi in ranges)
    e = Engine.cur
    return e.decide(e.in_ranges(c, ranges))


def _id_start(c):
    if isinstance(c, int):
        return chr(c).isidentifier()
    return _inr(c, ID_START)


def _id_cont(c):
    if isinstance(c, int):
        return ("a" + chr(c)).isidentifier()
    return _inr(c, ID_CONT)


def _hexval(c):
    if isinstance(c, int):
        return int(chr(c), 16)
    return z3.If(c <= 57, c - 48, z3.If(c <= 70, c - 55, c - 87))


_NAMED = {}


def valid_unicode_names(alpha_letters, maxlen):
    """All \\N{name} names of length <= maxlen over the given characters (tabulated from unicodedata)."""
    key = (alpha_letters, maxlen)
    if key not in _NAMED:
        import itertools

        out = {}
        for n in range(1, maxlen + 1):
            for t in itertools.product(alpha_letters, repeat=n):
                s = "".join(t)
                try:
                    out[s] = ord(unicodedata.lookup(s))
                except (KeyError, TypeError):
                    pass
        _NAMED[key] = out
    return _NAMED[key]


NAME_ALPHA = "aNxu0: "  # letters of the hostile alphabet that can occur inside \N{...}


def _lex_string(cs, i, prefix, res):
    """cs[i] is the opening quote.  Returns (next index, value chars | None) or None after res.fail()."""
    n = len(cs)
    q = cs[i]  # concrete or symbolic-but-decided quote char
    qv = q if isinstance(q, int) else None
    if qv is None:
        qv = 34 if _is(q, 34) else 39
    raw = "r" in prefix
    isbytes = "b" in prefix
    isf = "f" in prefix
    triple = False
    if i + 2 < n and _is(cs[i + 1], qv) and _is(cs[i + 2], qv):
        triple = True
        j = i + 3
    elif i + 1 < n and _is(cs[i + 1], qv):
        # empty string "" (not followed by a third quote)
        return i + 2, []
    else:
        j = i + 1
    val = []
    while True:
        if j >= n:
            res.fail("unterminated string", i)
            return None
        c = cs[j]
        if isf and not _conc(c):
            raise Unsupported("symbolic character inside an f-string literal")
        if _is(c, 0):
            res.fail("NUL in source", j)
            return None
        if _is(c, 92):  # backslash
            if j + 1 >= n:
                res.fail("unterminated string (trailing backslash)", i)
                return None
            d = cs[j + 1]
            if _is(d, 0):
                res.fail("NUL in source", j + 1)
                return None
            if raw:
                val.extend([c, d])
                j += 2
                continue
            # line continuation inside a string
            if _is(d, 10):
                j += 2
                continue
            if _is(d, 13):
                j += 2
                if j < n and _is(cs[j], 10):
                    j += 1
                continue
            done = False
            for k, v in _SIMPLE_ESC.items():
                if _is(d, k):
                    val.append(v)
                    j += 2
                    done = True
                    break
            if done:
                continue
            if _inr(d, _OCT):
                # up to three octal digits
                digs = [d]
                j += 2
                while len(digs) < 3 and j < n and _inr(cs[j], _OCT):
                    digs.append(cs[j])
                    j += 1
                v = 0
                for x in digs:
                    v = v * 8 + (x - 48)
                val.append(v)
                continue
            if _is(d, ord("x")):
                if _has(cs, j + 2, 2) and _inr(cs[j + 2], _HEX) and _inr(cs[j + 3], _HEX):
                    val.append(_hexval(cs[j + 2]) * 16 + _hexval(cs[j + 3]))
                    j += 4
                    continue
                res.fail("invalid \\x escape", j)
                return None
            if not isbytes and (_is(d, ord("u")) or _is(d, ord("U"))):
                k = 4 if _is(d, ord("u")) else 8
                if _has(cs, j + 2, k) and all(_inr(cs[j + 2 + t], _HEX) for t in range(k)):
                    v = 0
                    for t in range(k):
                        v = v * 16 + _hexval(cs[j + 2 + t])
                    if k == 8:
                        if isinstance(v, int):
                            if v > 0x10FFFF:
                                res.fail("illegal Unicode character", j)
                                return None
                        elif Engine.cur.decide(v > 0x10FFFF):
                            res.fail("illegal Unicode character", j)
                            return None
                    val.append(v)
                    j += 2 + k
                    continue
                res.fail("truncated \\u escape", j)
                return None
            if not isbytes and _is(d, ord("N")):
                # \N{name}
                if not (_has(cs, j + 2, 1) and _is(cs[j + 2], ord("{"))):
                    res.fail("malformed \\N escape", j)
                    return None
                t = j + 3
                name = []
                closed = False
                while t < n and len(name) <= 8:
                    if _is(cs[t], ord("}")):
                        closed = True
                        break
                    name.append(cs[t])
                    t += 1
                if not closed:
                    res.fail("malformed \\N escape", j)
                    return None
                if all(_conc(x) for x in name):
                    try:
                        val.append(ord(unicodedata.lookup("".join(chr(x) for x in name))))
                    except (KeyError, TypeError):
                        res.fail("unknown Unicode character name", j)
                        return None
                else:
                    names = valid_unicode_names(NAME_ALPHA, 3)
                    if len(name) > 3:
                        raise Unsupported("symbolic \\N{} name longer than 3")
                    hit = None
                    sname = SymStr(name)
                    for nm, cp in names.items():
                        if len(nm) == len(name) and bool(sname.lower() == nm.lower()):
                            hit = cp
                            break
                    if hit is None:
                        res.fail("unknown Unicode character name", j)
                        return None
                    val.append(hit)
                j = t + 1
                continue
            # unknown escape: kept literally (SyntaxWarning only)
            val.extend([c, d])
            j += 2
            continue
        if _is(c, qv):
            if not triple:
                return j + 1, (None if (isbytes or isf) else val)
            if _has(cs, j + 1, 2) and _is(cs[j + 1], qv) and _is(cs[j + 2], qv):
                return j + 3, (None if (isbytes or isf) else val)
            val.append(c)
            j += 1
            continue
        if not triple and (_is(c, 10) or _is(c, 13)):
            res.fail("unterminated string (newline in single-quoted literal)", i)
            return None
        if triple and _is(c, 13):
            # universal newlines: \r\n and \r read as \n
            val.append(10)
            j += 1
            if j < n and _is(cs[j], 10):
                j += 1
            continue
        val.append(c)
        j += 1


def _has(cs, start, k):
    return start + k <= len(cs)


def lex(cs):
    cs = list(cs)
    n = len(cs)
    res = LexResult()
    sk = res.skeleton
    i = 0
    depth = 0
    indents = [0]
    at_line_start = True
    line_has_tokens = False
    last_name = None  # (text, end index) of the NAME token just emitted, for string prefixes

    def emit_str(prefix, val):
        # implicit concatenation: merge with a directly preceding STR token
        if sk and sk[-1][0] == "STR":
            idx, pfx, prev = res.strings[-1]
            res.strings[-1] = (idx, pfx, None if (prev is None or val is None) else prev + val)
            return
        sk.append(("STR",))
        res.strings.append((len(sk) - 1, prefix, val))

    while i < n:
        if at_line_start:
            col = 0
            cont_col = 0
            while i < n:
                c = cs[i]
                if _is(c, 32):
                    col += 1
                elif _is(c, 9):
                    col = (col // 8 + 1) * 8
                elif _is(c, 12):
                    col = 0
                elif _is(c, 92):
                    # CPython: a backslash inside the indentation joins the next physical line; the column of the first
                    # such backslash (if non-zero) fixes the indentation level
                    cont_col = cont_col or col
                    if i + 1 < n and (_is(cs[i + 1], 10) or _is(cs[i + 1], 13)):
                        if _is(cs[i + 1], 13) and i + 2 < n and _is(cs[i + 2], 10):
                            i += 1
                        i += 1
                        if i + 1 >= n:
                            return res.fail("unexpected EOF after line continuation", i)
                    else:
                        return res.fail("unexpected character after line continuation character", i)
                else:
                    break
                i += 1
            if i >= n:
                break
            col = cont_col or col
            c = cs[i]
            at_line_start = False
            blank = _is(c, 35) or _is(c, 10) or _is(c, 13)
            if not blank and depth == 0:
                if col > indents[-1]:
                    indents.append(col)
                    sk.append(("INDENT",))
                else:
                    while col < indents[-1]:
                        indents.pop()
                        sk.append(("DEDENT",))
                    if col != indents[-1]:
                        return res.fail("inconsistent dedent", i)
        c = cs[i]
        if _is(c, 0):
            return res.fail("NUL in source", i)
        if _is(c, 32) or _is(c, 9) or _is(c, 12):
            i += 1
            last_name = None
            continue
        if _is(c, 10) or _is(c, 13):
            if _is(c, 13) and i + 1 < n and _is(cs[i + 1], 10):
                i += 1
            i += 1
            last_name = None
            if depth == 0:
                if line_has_tokens:
                    sk.append(("NEWLINE",))
                line_has_tokens = False
                at_line_start = True
            continue
        if _is(c, 35):  # comment
            i += 1
            while i < n and not (_is(cs[i], 10) or _is(cs[i], 13)):
                if _is(cs[i], 0):
                    return res.fail("NUL in source", i)
                i += 1
            last_name = None
            continue
        if _is(c, 92):
            # explicit line joining
            if i + 1 < n and (_is(cs[i + 1], 10) or _is(cs[i + 1], 13)):
                if _is(cs[i + 1], 13) and i + 2 < n and _is(cs[i + 2], 10):
                    i += 1
                i += 2
                last_name = None
                continue
            return res.fail("unexpected character after line continuation character", i)
        if _is(c, 34) or _is(c, 39):
            prefix = ""
            if last_name is not None and last_name[1] == i and last_name[0] is not None and last_name[0].lower() in _PREFIXES:
                prefix = last_name[0].lower()
                sk.pop()  # the prefix was emitted as a NAME
            elif last_name is not None and last_name[1] == i and last_name[0] is None:
                # an identifier with symbolic characters directly followed by a quote: is it a string prefix?
                sname = last_name[2]
                if len(sname) <= 2:
                    low = sname.lower()
                    for pfx in sorted(_PREFIXES):
                        if len(pfx) == len(sname) and bool(low == pfx):
                            prefix = pfx
                            sk.pop()
                            break
            r = _lex_string(cs, i, prefix, res)
            if r is None:
                return res
            i, val = r
            emit_str(prefix, val)
            line_has_tokens = True
            last_name = None
            continue
        if _inr(c, _DIGIT):
            j = i + 1
            while j < n and (_id_cont(cs[j]) or _is(cs[j], 46)):
                j += 1
            sk.append(("NUM",))
            res.names[len(sk) - 1] = tuple(cs[i:j])
            i = j
            line_has_tokens = True
            last_name = None
            continue
        if _id_start(c):
            j = i + 1
            while j < n and _id_cont(cs[j]):
                j += 1
            chars = cs[i:j]
            if all(_conc(x) for x in chars):
                text = "".join(chr(x) for x in chars)
                sk.append(("NAME", text if text in _KW else None))
                last_name = (text, j)
            else:
                s = SymStr(chars)
                kw = None
                for k in _KW:
                    if len(k) == len(chars) and bool(s == k):
                        kw = k
                        break
                sk.append(("NAME", kw))
                last_name = (None, j, s)
            res.names[len(sk) - 1] = tuple(chars)
            i = j
            line_has_tokens = True
            continue
        # operators / brackets
        if _conc(c):
            ch = chr(c)
            if ch in _OPCHARS:
                if ch in "([{":
                    depth += 1
                elif ch in ")]}":
                    depth -= 1
                    if depth < 0:
                        return res.fail("unmatched bracket", i)
                sk.append(("OP", ch))
                i += 1
                line_has_tokens = True
                last_name = None
                continue
            return res.fail("invalid character %r" % ch, i)
        # a symbolic character that is none of: whitespace, newline, quote, '#', backslash, digit, identifier start.
        # Whatever it is (operator, bracket, '$', '?', non-identifier Unicode) it is spec text acting as code.
        return res.fail("spec text outside any string literal or comment", i)
    if depth != 0:
        return res.fail("unclosed bracket", n)
    if line_has_tokens:
        sk.append(("NEWLINE",))
    while len(indents) > 1:
        indents.pop()
        sk.append(("DEDENT",))
    return res


def lex_text(s):
    """Convenience: lex a str or SymStr."""
    if isinstance(s, str):
        return lex([ord(c) for c in s])
    return lex(s.cs)


# --------------------------------------------------------------------------- CPython side (validation oracle)
def cpython_view(code):
    """(parses, AST shape, list of all str constants in source order) according to CPython itself."""
    import ast
    import warnings

    try:
        with warnings.catch_warnings():
            warnings.simplefilter("ignore")
            tree = ast.parse(code)
    except (SyntaxError, ValueError):
        return False, None, None

    def shape(node):
        return (type(node).__name__, tuple(shape(ch) for ch in ast.iter_child_nodes(node)))

    consts = []

    class V(ast.NodeVisitor):
        def visit_Constant(self, node):
            if isinstance(node.value, str):
                consts.append((node.lineno, node.col_offset, node.value))

        def visit_JoinedStr(self, node):
            consts.append((node.lineno, node.col_offset, None))

    V().visit(tree)
    consts.sort(key=lambda t: (t[0], t[1]))
    return True, shape(tree), [c[2] for c in consts]
