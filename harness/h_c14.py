"""C14 harness (CrossHair): union values are decoded as the right variant, never lossily.
Union aliases are emitted by the real generator from harness/t_union.py (package cl14, built by props/c14.py)."""
from __future__ import annotations

import copy
import os
import sys

sys.path.insert(0, os.environ["VERIF_GEN_ROOT"])
from xh_support import prepare_cattrs  # noqa: E402

conv = prepare_cattrs("cl14.core.cattrs_converter")
S = conv.structure_from_dict
U = conv.unstructure_to_dict
from cl14.models import Animal, Animal2, BarePet, Boxy, Round_, Shape2, CatV, Kit2, Pup2, Dog2, LegacyPet, Kit, MixedPet, NullablePet, Pup, Reading  # noqa: E402
from cl14.models import (AllOpt, BankPay, Basic, Card, CardPay, CardRev, Full, Summary, Cat, Circle, Detailed, Dog, Holder, IntOrStr, ListOrBasic, OptA, OptB, Overlap, OverlapRev, Pay, Pet, Shape,  # noqa: E402
                         Square, StrOrBasic)

KINDS = ["cat", "dog"]


def _enc(v):
    """encode a decoded union value back to JSON"""
    if isinstance(v, (str, int, float, bool)) or v is None:
        return v
    if isinstance(v, list):
        return [_enc(x) for x in v]
    if isinstance(v, dict):
        return {k: _enc(x) for k, x in v.items()}
    return U(v)


def _norm(d):
    if isinstance(d, dict):
        return {k: _norm(v) for k, v in d.items() if v is not None and v != [] and v != {}}
    if isinstance(d, list):
        return [_norm(x) for x in d]
    return d


def _same(a, b):
    return _norm(a) == _norm(b) and type(a) is type(b)


for _t, _d in [(Pay, {"method": "credit-card", "pan": "1"}), (Pay, {"method": "credit_card", "iban": "2"}), (Pet, {"kind": "cat", "name": "n", "lives": 1}), (Pet, {"kind": "dog", "name": "n", "barkVolume": 1}), (Shape, {"r": 1}), (Shape, {"side": 1}),
               (Overlap, {"id": "a"}), (Overlap, {"id": "a", "extra": 1}), (OverlapRev, {"id": "a"}), (OverlapRev, {"id": "a", "extra": 1}), (NullablePet, {"kind": "dog", "name": "d"}), (LegacyPet, {"kind": "dog", "name": "d", "barkVolume": 1}), (LegacyPet, {"kind": "cat", "name": "c"}), (Animal2, {"species": "kitten", "name": "k"}), (Animal2, {"species": "dog", "name": "d"}), (Shape2, {"type": "round", "r": 1}), (Shape2, {"type": "boxy", "side": 2}), (Card, {"id": "a"}), (Card, {"id": "a", "displayName": "n", "isActive": True, "class": "c"}), (CardRev, {"id": "a", "class": "c"}), (CardRev, {"id": "a", "displayName": "n"}),
               (AllOpt, {"x": 1}), (AllOpt, {"y": 1}), (IntOrStr, 1), (IntOrStr, "s"), (StrOrBasic, "s"), (StrOrBasic, {"id": "a"}),
               (ListOrBasic, ["a"]), (ListOrBasic, {"id": "a"}), (Reading, {"code": 1, "flag": True, "opt": "s"}), (Reading, {"code": "s", "flag": 1}), (Reading, {"code": None, "flag": None}),
               (Animal, {"species": "cat", "name": "n"}), (Animal, {"species": "kitten", "name": "n"}), (Animal, {"species": "dog", "name": "n"}),
               (BarePet, {"kind": "cat", "name": "n"}), (BarePet, {"kind": "dog", "name": "n"}), (MixedPet, {"kind": "cat", "name": "n"}), (MixedPet, {"kind": "dog", "name": "n"}),
               (Holder, {"pet": {"kind": "cat", "name": "n"}, "shape": {"r": 1}, "shapes": [{"side": 2}], "maybePet": {"kind": "dog", "name": "d"}})]:
    try:
        _enc(S(copy.deepcopy(_d), _t))
    except Exception:
        pass


def ob_pet_discriminated(which: int, name: str, has_extra: bool, n: int) -> bool:
    """
    pre: 0 <= which <= 1 and len(name) <= 2
    post: _
    """
    doc = {"kind": KINDS[which], "name": name}
    if has_extra:
        doc[["lives", "barkVolume"][which]] = n
    v = S(dict(doc), Pet)
    return isinstance(v, [Cat, Dog][which]) and _norm(_enc(v)) == _norm(doc)


def tw_pet_discriminated(which: int, name: str, has_extra: bool, n: int) -> bool:
    """
    pre: 0 <= which <= 1 and len(name) <= 2
    post: _
    """
    S({"kind": KINDS[which], "name": name}, Pet)
    return False


def ob_pet_unmapped_value(name: str, v: int) -> bool:
    """
    pre: len(name) <= 2 and 0 <= v <= 2
    post: _
    """
    try:
        S({"kind": ["bird", "", "Cat"][v], "name": name}, Pet)
    except (ValueError, TypeError):
        return True
    return False


def tw_pet_unmapped_value(name: str, v: int) -> bool:
    """
    pre: len(name) <= 2 and 0 <= v <= 2
    post: _
    """
    try:
        S({"kind": ["bird", "", "Cat"][v], "name": name}, Pet)
    except (ValueError, TypeError):
        pass
    return False


FALSY = ["", None, 0, False]


def ob_pet_falsy_discriminator(v: int, with_extra: bool) -> bool:
    """
    pre: 0 <= v <= 3
    post: _
    """
    # a discriminator that is present but falsy is still a value outside the mapping: an error, not a guess
    doc = {"kind": FALSY[v], "name": "n"}
    if with_extra:
        doc["lives"] = 3
    try:
        S(doc, Pet)
    except (ValueError, TypeError):
        return True
    return False


def tw_pet_falsy_discriminator(v: int, with_extra: bool) -> bool:
    """
    pre: 0 <= v <= 3
    post: _
    """
    try:
        S({"kind": FALSY[v], "name": "n"}, Pet)
    except (ValueError, TypeError):
        pass
    return False


def ob_legacy_pet(mode: int, pk: int, name: str, has_extra: bool, n: int) -> bool:
    """
    pre: 0 <= mode <= 2 and 0 <= pk <= 1 and len(name) <= 1
    post: _
    """
    # variant schemas named cat_v / Dog2: the mapping leads to the classes CatV / Dog2 in modules cat_v / dog_2
    if mode == 0:
        doc = {"kind": KINDS[pk], "name": name}
        if has_extra:
            doc[["lives", "barkVolume"][pk]] = n
        x = S(dict(doc), LegacyPet)
        return isinstance(x, [CatV, Dog2][pk]) and _norm(_enc(x)) == _norm(doc)
    doc = {"kind": (["bird", "Cat"] + FALSY)[n % 6] if mode == 1 else KINDS[pk], "name": name}
    if mode == 2:
        doc[["lives", "barkVolume"][pk]] = "zz"
    try:
        S(doc, LegacyPet)
    except (ValueError, TypeError):
        return True
    return False  # an unmapped / falsy discriminator value, or a malformed mapped variant, was decoded as something


def tw_legacy_pet(mode: int, pk: int, name: str, has_extra: bool, n: int) -> bool:
    """
    pre: 0 <= mode <= 2 and 0 <= pk <= 1 and len(name) <= 1
    post: _
    """
    S({"kind": KINDS[pk], "name": name}, LegacyPet)
    return False


def ob_undeclared_discriminator(mode: int, which: int, v: int) -> bool:
    """
    pre: 0 <= mode <= 1 and 0 <= which <= 1 and -5 <= v <= 5
    post: _
    """
    # the variants do not declare `type`; the union's mapping alone decides
    key = ["r", "side"][which]
    if mode == 0:
        x = S({"type": ["round", "boxy"][which], key: v}, Shape2)
        return isinstance(x, [Round_, Boxy][which]) and getattr(x, key) == v
    try:
        S({"type": (["oval", "Round"] + FALSY)[(v + 5) % 6], key: v}, Shape2)
    except (ValueError, TypeError):
        return True
    return False  # a value outside the mapping (also a falsy one) was decoded as something


def tw_undeclared_discriminator(mode: int, which: int, v: int) -> bool:
    """
    pre: 0 <= mode <= 1 and 0 <= which <= 1 and -5 <= v <= 5
    post: _
    """
    S({"type": ["round", "boxy"][which], ["r", "side"][which]: v}, Shape2)
    return False


def ob_pet_mapped_but_malformed(which: int, name: str, bad: int) -> bool:
    """
    pre: 0 <= which <= 1 and len(name) <= 2 and 0 <= bad <= 1
    post: _
    """
    doc = {"kind": KINDS[which], "name": name}
    doc[["lives", "barkVolume"][which]] = ["zz", [1]][bad]  # the mapped variant's own optional field carries the wrong type
    try:
        S(doc, Pet)
    except (ValueError, TypeError):
        return True
    return False  # decoded as something (e.g. silently as the other variant)


def tw_pet_mapped_but_malformed(which: int, name: str, bad: int) -> bool:
    """
    pre: 0 <= which <= 1 and len(name) <= 2 and 0 <= bad <= 1
    post: _
    """
    try:
        S({"kind": KINDS[which], "name": name, ["lives", "barkVolume"][which]: "zz"}, Pet)
    except (ValueError, TypeError):
        pass
    return False


def ob_shape_disjoint(which: int, v: int, has_label: bool, label: str) -> bool:
    """
    pre: 0 <= which <= 1 and len(label) <= 2
    post: _
    """
    doc = {["r", "side"][which]: v}
    if has_label:
        doc["label"] = label
    x = S(dict(doc), Shape)
    return isinstance(x, [Circle, Square][which]) and _norm(_enc(x)) == _norm(doc)


def tw_shape_disjoint(which: int, v: int, has_label: bool, label: str) -> bool:
    """
    pre: 0 <= which <= 1 and len(label) <= 2
    post: _
    """
    S({["r", "side"][which]: v}, Shape)
    return False


def ob_overlap_subset(rev: bool, detailed: bool, i: str, extra: int, has_note: bool) -> bool:
    """
    pre: len(i) <= 2
    post: _
    """
    doc = {"id": i}
    if detailed:
        doc["extra"] = extra
    if has_note:
        doc["note"] = i
    x = S(dict(doc), OverlapRev if rev else Overlap)
    return _norm(_enc(x)) == _norm(doc)


def tw_overlap_subset(rev: bool, detailed: bool, i: str, extra: int, has_note: bool) -> bool:
    """
    pre: len(i) <= 2
    post: _
    """
    S({"id": i}, OverlapRev if rev else Overlap)
    return False


def ob_renamed_overlap(rev: bool, full: bool, i: str, has_active: bool, active: bool, has_class: bool) -> bool:
    """
    pre: len(i) <= 2
    post: _
    """
    doc = {"id": i}
    if full:
        doc["displayName"] = i + "n"
        if has_active:
            doc["isActive"] = active
    if has_class:
        doc["class"] = "c" + i
    x = S(dict(doc), CardRev if rev else Card)
    return isinstance(x, Full if full else Summary) and _norm(_enc(x)) == _norm(doc)


def tw_renamed_overlap(rev: bool, full: bool, i: str, has_active: bool, active: bool, has_class: bool) -> bool:
    """
    pre: len(i) <= 2
    post: _
    """
    S({"id": i, "displayName": "n"}, CardRev if rev else Card)
    return False


def ob_all_optional(which: int, v: int) -> bool:
    """
    pre: 0 <= which <= 2
    post: _
    """
    doc = [{"x": v}, {"y": v}, {}][which]
    x = S(dict(doc), AllOpt)
    return _norm(_enc(x)) == _norm(doc)


def tw_all_optional(which: int, v: int) -> bool:
    """
    pre: 0 <= which <= 2
    post: _
    """
    S([{"x": v}, {"y": v}, {}][which], AllOpt)
    return False


def ob_primitive_union(is_int: bool, i: int, s: str) -> bool:
    """
    pre: len(s) <= 2
    post: _
    """
    v = i if is_int else s
    x = S(v, IntOrStr)
    return x == v and type(x) is type(v)


def tw_primitive_union(is_int: bool, i: int, s: str) -> bool:
    """
    pre: len(s) <= 2
    post: _
    """
    S(i if is_int else s, IntOrStr)
    return False


DIGITS = ["0", "00", "7", "-1", "1e3", " 5"]


def _reading_ok(doc):
    back = U(S(copy.deepcopy(doc), Reading))
    for k, v in doc.items():
        if v is None:
            if back.get(k) is not None:
                return False
        elif back.get(k) != v or type(back.get(k)) is not type(v):
            return False
    return True


def ob_nullable_union_code(ck: int, i: int, s: str, d: int) -> bool:
    """
    pre: 0 <= ck <= 3 and len(s) <= 2 and 0 <= d < 6
    post: _
    """
    return _reading_ok({"code": [i, s, DIGITS[d], None][ck], "flag": None})  # int, string, number-like string, null


def tw_nullable_union_code(ck: int, i: int, s: str, d: int) -> bool:
    """
    pre: 0 <= ck <= 3 and len(s) <= 2 and 0 <= d < 6
    post: _
    """
    U(S({"code": DIGITS[d], "flag": None}, Reading))
    return False


def ob_nullable_union_flag(fk: int, i: int, b: bool) -> bool:
    """
    pre: 0 <= fk <= 2
    post: _
    """
    return _reading_ok({"code": None, "flag": [i, b, None][fk]})


def tw_nullable_union_flag(fk: int, i: int, b: bool) -> bool:
    """
    pre: 0 <= fk <= 2
    post: _
    """
    U(S({"code": None, "flag": b}, Reading))
    return False


def ob_optional_union_field(has_opt: bool, opt_digits: bool, i: int, d: int) -> bool:
    """
    pre: 0 <= d < 6
    post: _
    """
    doc = {"code": 1, "flag": 1}
    if has_opt:
        doc["opt"] = DIGITS[d] if opt_digits else i
    return _reading_ok(doc)


def tw_optional_union_field(has_opt: bool, opt_digits: bool, i: int, d: int) -> bool:
    """
    pre: 0 <= d < 6
    post: _
    """
    U(S({"code": 1, "flag": 1, "opt": DIGITS[d]}, Reading))
    return False


SPECIES = ["cat", "kitten", "dog"]


def ob_many_to_one_mapping(k: int, name: str) -> bool:
    """
    pre: 0 <= k <= 2 and len(name) <= 2
    post: _
    """
    doc = {"species": SPECIES[k], "name": name}
    x = S(dict(doc), Animal)
    return type(x) is (Pup if k == 2 else Kit) and _norm(_enc(x)) == _norm(doc)


def tw_many_to_one_mapping(k: int, name: str) -> bool:
    """
    pre: 0 <= k <= 2 and len(name) <= 2
    post: _
    """
    S({"species": SPECIES[k], "name": name}, Animal)
    return False


def ob_many_to_one_plain_string(k: int, name: str) -> bool:
    """
    pre: 0 <= k <= 2 and len(name) <= 2
    post: _
    """
    doc = {"species": SPECIES[k], "name": name}
    x = S(dict(doc), Animal2)
    return isinstance(x, [Kit2, Kit2, Pup2][k]) and _norm(_enc(x)) == _norm(doc)


def tw_many_to_one_plain_string(k: int, name: str) -> bool:
    """
    pre: 0 <= k <= 2 and len(name) <= 2
    post: _
    """
    S({"species": SPECIES[k], "name": name}, Animal2)
    return False


def ob_bare_name_mapping(mixed: bool, k: int, name: str, has_extra: bool, n: int) -> bool:
    """
    pre: 0 <= k <= 1 and len(name) <= 2
    post: _
    """
    doc = {"kind": KINDS[k], "name": name}
    if has_extra:
        doc["lives" if k == 0 else "barkVolume"] = n
    x = S(dict(doc), MixedPet if mixed else BarePet)
    return type(x) is (Cat if k == 0 else Dog) and _norm(_enc(x)) == _norm(doc)


def tw_bare_name_mapping(mixed: bool, k: int, name: str, has_extra: bool, n: int) -> bool:
    """
    pre: 0 <= k <= 1 and len(name) <= 2
    post: _
    """
    S({"kind": KINDS[k], "name": name}, BarePet)
    return False


def ob_primitive_or_object(which: int, s: str, has_note: bool) -> bool:
    """
    pre: 0 <= which <= 3 and len(s) <= 2
    post: _
    """
    if which == 0:
        return _enc(S(s, StrOrBasic)) == s
    if which == 1:
        doc = {"id": s}
        if has_note:
            doc["note"] = s
        return _norm(_enc(S(dict(doc), StrOrBasic))) == _norm(doc)
    if which == 2:
        doc = [s, s + "x"]
        return _enc(S(list(doc), ListOrBasic)) == doc
    doc = {"id": s}
    return _norm(_enc(S(dict(doc), ListOrBasic))) == _norm(doc)


def tw_primitive_or_object(which: int, s: str, has_note: bool) -> bool:
    """
    pre: 0 <= which <= 3 and len(s) <= 2
    post: _
    """
    S(s, StrOrBasic)
    return False


def ob_holder_pet_and_shape(pk: int, name: str, has_shape: bool, sk: int, v: int) -> bool:
    """
    pre: 0 <= pk <= 1 and len(name) <= 1 and 0 <= sk <= 1
    post: _
    """
    doc = {"pet": {"kind": KINDS[pk], "name": name}}
    if has_shape:
        doc["shape"] = {["r", "side"][sk]: v}
    h = S(copy.deepcopy(doc), Holder)
    if not isinstance(h.pet, [Cat, Dog][pk]):
        return False
    return _norm(U(h)) == _norm(doc)


def tw_holder_pet_and_shape(pk: int, name: str, has_shape: bool, sk: int, v: int) -> bool:
    """
    pre: 0 <= pk <= 1 and len(name) <= 1 and 0 <= sk <= 1
    post: _
    """
    S({"pet": {"kind": KINDS[pk], "name": name}}, Holder)
    return False


# (a list of unions as a model field is not covered: CrossHair fails inside cattrs' list dispatch with
# '__hash__ method should return an integer' for a symbolic element, natively the same input passes)


def ob_nullable_pet_alias(mode: int, pk: int, name: str) -> bool:
    """
    pre: 0 <= mode <= 2 and 0 <= pk <= 1 and len(name) <= 1
    post: _
    """
    # nullable + discriminator on one named union: the mapping still decides (the payload's keys alone cannot)
    if mode == 0:
        x = S({"kind": KINDS[pk], "name": name}, NullablePet)
        return isinstance(x, [Cat, Dog][pk]) and _norm(_enc(x)) == {"kind": KINDS[pk], "name": name}
    if mode == 1:
        return S(None, NullablePet) is None
    try:
        S({"kind": KINDS[pk], "name": name, ["lives", "barkVolume"][pk]: "zz"}, NullablePet)
    except (ValueError, TypeError):
        return True
    return False


def tw_nullable_pet_alias(mode: int, pk: int, name: str) -> bool:
    """
    pre: 0 <= mode <= 2 and 0 <= pk <= 1 and len(name) <= 1
    post: _
    """
    S({"kind": KINDS[pk], "name": name}, NullablePet)
    return False


def ob_holder_nullable_pet(maybe: int, pk: int, name: str, v: int) -> bool:
    """
    pre: 0 <= maybe <= 3 and 0 <= pk <= 1 and len(name) <= 1
    post: _
    """
    doc = {"pet": {"kind": "cat", "name": "n"}}
    if maybe == 1:
        doc["maybePet"] = None
    elif maybe == 2:
        doc["maybePet"] = {"kind": KINDS[pk], "name": name, ["lives", "barkVolume"][pk]: v}
    elif maybe == 3:
        doc["maybePet"] = {"kind": KINDS[pk], "name": name}
    h = S(copy.deepcopy(doc), Holder)
    if maybe >= 2 and not isinstance(h.maybe_pet, [Cat, Dog][pk]):
        return False
    return _norm(U(h)) == _norm(doc)


def tw_holder_nullable_pet(maybe: int, pk: int, name: str, v: int) -> bool:
    """
    pre: 0 <= maybe <= 2 and 0 <= pk <= 1 and len(name) <= 1
    post: _
    """
    S({"pet": {"kind": "cat", "name": "n"}, "maybePet": None}, Holder)
    return False


def ob_pay_similar_discriminator_values(bank: bool, v: str) -> bool:
    """
    pre: len(v) <= 2
    post: _
    """
    # two discriminator values that differ only in punctuation ("credit-card" / "credit_card")
    doc = {"method": "credit_card", "iban": v} if bank else {"method": "credit-card", "pan": v}
    x = S(dict(doc), Pay)
    return isinstance(x, BankPay if bank else CardPay) and _norm(_enc(x)) == _norm(doc)


def tw_pay_similar_discriminator_values(bank: bool, v: str) -> bool:
    """
    pre: len(v) <= 2
    post: _
    """
    S({"method": "credit-card", "pan": v}, Pay)
    return False
