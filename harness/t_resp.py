"""Template family T_resp for C05 (endpoint methods emitted by the real generator from this document)."""


def spec():
    st, it = {"type": "string"}, {"type": "integer"}
    ref = lambda n: {"$ref": "#/components/schemas/" + n}  # noqa: E731
    js = lambda sch, d="ok": {"description": d, "content": {"application/json": {"schema": sch}}}  # noqa: E731
    S = {
        "Item": {"type": "object", "required": ["id"], "properties": {"id": it, "displayName": st, "tags": {"type": "array", "items": st}}},
        "Other": {"type": "object", "required": ["code"], "properties": {"code": st}},
        "Err": {"type": "object", "properties": {"msg": st}},
        "ItemList": {"type": "array", "items": ref("Item")},
        # formatted strings and enums as whole bodies (annotated datetime / date / UUID / the enum class)
        "Color": {"type": "string", "enum": ["red", "dark-blue"]},
        "Colors": {"type": "array", "items": ref("Color")},
        "Stamp": {"type": "string", "format": "date-time"},
        "Stamps": {"type": "array", "items": {"type": "string", "format": "date-time"}},
        # an object without declared properties (emitted as a wrapper class) and a named array of it
        "Labels": {"type": "object", "additionalProperties": st},
        "LabelSets": {"type": "array", "items": ref("Labels")},
        # nullable success bodies: an all-optional object, a named array
        "Profile": {"type": "object", "nullable": True, "properties": {"nick": st, "city": st}},
        "MaybeItems": {"type": "array", "nullable": True, "items": ref("Item")},
        "Circle": {"type": "object", "required": ["r"], "properties": {"r": it}},
        "Square": {"type": "object", "required": ["side"], "properties": {"side": it}},
        "Shape": {"oneOf": [ref("Circle"), ref("Square")]},
    }

    def op(oid, responses, method="get", tag=None):
        o = {"operationId": oid, "responses": responses}
        if tag:
            o["tags"] = [tag]
        return {method: o}

    paths = {
        "/item": op("getItem", {"200": js(ref("Item"))}),
        "/items": op("listItems", {"200": js({"type": "array", "items": ref("Item")})}),
        "/alias": op("getAlias", {"200": js(ref("ItemList"))}),
        "/labelsets": op("getLabelSets", {"200": js(ref("LabelSets"))}),
        "/labels": op("getLabels", {"200": js(ref("Labels"))}),
        "/profile": op("getProfile", {"200": js(ref("Profile")), "204": {"description": "nothing stored"}}),
        "/mitems": op("getMaybeItems", {"200": js(ref("MaybeItems"))}),
        "/color": op("getColor", {"200": js(ref("Color"))}),
        "/tone": op("getTone", {"200": js({"allOf": [ref("Color")], "nullable": True})}),
        "/colors": op("getColors", {"200": js(ref("Colors"))}),
        "/colorsinline": op("getColorsInline", {"200": js({"type": "array", "items": ref("Color")})}),
        "/stamp": op("getStamp", {"200": js(ref("Stamp"))}),
        "/stamps": op("getStamps", {"200": js(ref("Stamps"))}),
        "/when": op("getWhen", {"200": js({"type": "string", "format": "date-time"})}),
        "/day": op("getDay", {"200": js({"type": "string", "format": "date"})}),
        "/uid": op("getUid", {"200": js({"type": "string", "format": "uuid"})}),
        "/uids": op("getUids", {"200": js({"type": "array", "items": {"type": "string", "format": "uuid"}})}),
        "/seq": op("tailSeq", {"200": {"description": "ok", "content": {"application/json-seq": {"schema": ref("Item")}}}}),
        "/ticks": op("tailTicks", {"200": {"description": "ok", "content": {"text/event-stream": {"schema": st}}}}),
        "/changes": op("tailChanges", {"200": {"description": "ok", "content": {"text/event-stream": {"schema": ref("Item")}}}}),
        "/count": op("getCount", {"200": js(it)}),
        "/name": op("getName", {"200": js(st)}),
        "/create": op("createItem", {"201": js(ref("Item"))}, "post"),
        "/upsert": op("upsertItem", {"200": js(ref("Item")), "201": js(ref("Other"))}, "put"),
        "/upsert2": op("upsertReversed", {"201": js(ref("Other")), "200": js(ref("Item"))}, "put"),
        "/maybe2": op("nothingOrItem", {"204": {"description": "nothing"}, "200": js(ref("Item"))}),
        "/flavours": op("getFlavours", {"200": {"description": "ok", "content": {"application/json": {"schema": ref("Item")}, "application/hal+json": {"schema": ref("Other")}}}}),
        "/accept": op("acceptJob", {"202": {"description": "accepted"}}, "post"),
        "/gone": op("removeItem", {"204": {"description": "gone"}}, "delete"),
        "/maybe": op("maybeItem", {"200": js(ref("Item")), "204": {"description": "nothing"}}),
        "/text": op("getText", {"200": {"description": "ok", "content": {"text/plain": {"schema": st}}}}),
        "/blob": op("getBlob", {"200": {"description": "ok", "content": {"application/octet-stream": {"schema": {"type": "string", "format": "binary"}}}}}),
        "/either": op("getEither", {"200": {"description": "ok", "content": {"application/json": {"schema": ref("Item")}, "text/plain": {"schema": st}}}}, tag="solo"),  # alone in its module: nothing else imports what its handler needs
        "/token": op("getVendorToken", {"200": {"description": "ok", "content": {"application/vnd.acme.token+json": {"schema": st}}}}),
        "/vitem": op("getVendorItem", {"200": {"description": "ok", "content": {"application/vnd.acme.item+json": {"schema": ref("Item")}}}}),
        "/ndjson": op("tailItems", {"200": {"description": "ok", "content": {"application/x-ndjson": {"schema": ref("Item")}}}}),
        "/dflt": op("getWithDefault", {"200": js(ref("Item")), "default": js(ref("Err"), "err")}),
        "/shape": op("getShape", {"200": js(ref("Shape"))}),
    }
    return {"openapi": "3.0.3", "info": {"title": "R", "version": "1"}, "paths": paths, "components": {"schemas": S}}
