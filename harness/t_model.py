"""Template family T_model for C03 (models emitted by the real generator from this document)."""


def spec():
    S = {
        "Status": {"type": "string", "enum": ["active", "in-active", "on hold"]},
        "Level": {"type": "integer", "enum": [1, 2, 3]},
        "Address": {"type": "object", "required": ["street"], "properties": {"street": {"type": "string"}, "zip-code": {"type": "string"}}},
        # reachable ONLY through Person.grid (a list of lists): its hooks are registered through that nesting or not at all
        "Cell": {"type": "object", "required": ["cell-id"], "properties": {"cell-id": {"type": "string"}, "zip-code": {"type": "string"}}},
        "Person": {
            "type": "object",
            "required": ["firstName", "mood"],
            "properties": {
                "firstName": {"type": "string"},
                "last_name": {"type": "string"},
                "home-address": {"$ref": "#/components/schemas/Address"},
                "class": {"type": "string"},
                "from": {"type": "integer"},
                "userName": {"type": "string"},
                "user_name": {"type": "string"},
                "user_name_2": {"type": "string"},
                "mood": {"type": ["string", "null"], "enum": ["ok", "bad"]},
                "nickname": {"type": "string", "nullable": True},
                "tags": {"type": "array", "items": {"type": "string"}},
                "attrs": {"type": "object", "additionalProperties": {"type": "integer"}},
                "status": {"$ref": "#/components/schemas/Status"},
                "level": {"$ref": "#/components/schemas/Level"},
                "addresses": {"type": "array", "items": {"$ref": "#/components/schemas/Address"}},
                # a model three levels down in the field type (list of lists), with a renamed property (zip-code)
                "grid": {"type": "array", "items": {"type": "array", "items": {"$ref": "#/components/schemas/Cell"}}},
            },
        },
        "Stamps": {
            "type": "object",
            "required": ["created"],
            "properties": {
                "created": {"type": "string", "format": "date-time"},
                "born": {"type": "string", "format": "date"},
                "uid": {"type": "string", "format": "uuid"},
                "avatar": {"type": "string", "format": "byte"},
                "blob": {"type": "string", "format": "binary"},  # rendered as bytes: base64 on the wire
                "score": {"type": "number"},
                "runs": {"type": "object", "additionalProperties": {"type": "string", "format": "date-time"}},
                "active": {"type": "boolean"},
            },
        },
        "Base": {"type": "object", "required": ["id"], "properties": {"id": {"type": "integer"}, "kind": {"type": "string"}}},
        "Employee": {"allOf": [{"$ref": "#/components/schemas/Base"}, {"type": "object", "required": ["boss"], "properties": {
            "boss": {"type": "string"}, "office": {"$ref": "#/components/schemas/Address"}}}]},
        # a REQUIRED key that already looks like a de-collision suffix is processed before the two keys that collide
        "Account": {"type": "object", "required": ["user_id_2"], "properties": {
            "user_id_2": {"type": "string"}, "userId": {"type": "string"}, "user_id": {"type": "string"}, "User-Id": {"type": "integer"}}},
        # a time of day, and values whose schema says little: a free-form object, "anything", an array of free-form objects
        "Loose": {"type": "object", "required": ["id"], "properties": {
            "id": {"type": "integer"}, "at": {"type": "string", "format": "time"}, "meta": {"type": "object"}, "payload": {},
            "rows": {"type": "array", "items": {"type": "object"}}, "note": {"description": "anything goes"},
            # `allOf: [{$ref}]` + annotations: the OpenAPI 3.0 idiom for a nullable / described reference (here to enums)
            "state": {"allOf": [{"$ref": "#/components/schemas/Status"}], "nullable": True},
            "rank": {"allOf": [{"$ref": "#/components/schemas/Level"}], "description": "described reference"},
            "marks": {"type": "array", "items": {"allOf": [{"$ref": "#/components/schemas/Status"}], "nullable": True}},
            # arrays whose ITEMS may be null
            "slots": {"type": "array", "items": {"type": "string", "nullable": True}}, "counts": {"type": "array", "items": {"type": "integer", "nullable": True}}}},
        # declared properties AND additionalProperties: the extra keys are admitted by the schema
        "Mixed": {"type": "object", "required": ["id"], "properties": {"id": {"type": "integer"}}, "additionalProperties": {"type": "integer"}},
        "Tree": {"type": "object", "required": ["label"], "properties": {"label": {"type": "string"}, "kids": {"type": "array", "items": {"$ref": "#/components/schemas/Tree"}}}},
    }
    ok = {"description": "ok", "content": {"application/json": {"schema": {"$ref": "#/components/schemas/Person"}}}}
    return {"openapi": "3.0.3", "info": {"title": "T", "version": "1"},
            "paths": {"/p": {"get": {"operationId": "getP", "responses": {"200": ok}}}}, "components": {"schemas": S}}
