"""C05 harness (CrossHair): declared success bodies come back as typed values.
Endpoint methods are emitted by the real generator from harness/t_resp.py (package cl05, built by props/c05.py); the
transport is a stub returning the declared status and a conforming body built from symbolic leaves."""
from __future__ import annotations

import os
import sys

sys.path.insert(0, os.environ["VERIF_GEN_ROOT"])
from xh_support import prepare_cattrs  # noqa: E402

conv = prepare_cattrs("cl05.core.cattrs_converter")
U = conv.unstructure_to_dict
import cl05.endpoints.default as ep  # noqa: E402
import cl05.endpoints.solo as ep_solo  # noqa: E402

for _m in (ep, ep_solo):
    # the endpoints module bound the name at import; re-bind it to the prepared converter, but never CREATE it:
    # a handler that uses a name its module does not import has to fail here as it does for a user
    if hasattr(_m, "structure_from_dict"):
        _m.structure_from_dict = conv.structure_from_dict
from cl05.models import Circle, Color, Item, Labels, Other, Profile, Square  # noqa: E402


class Resp:
    def __init__(self, status, body=None, text="", content=b"", ctype="application/json"):
        self.status_code = status
        self._body = body
        self.text = text
        self.content = content
        self.headers = {"content-type": ctype}

    def json(self):
        if self._body is _NOJSON:
            raise ValueError("body is not JSON")
        return self._body

    async def aiter_bytes(self):
        for c in self._chunks:
            yield c

    async def aiter_lines(self):
        for line in self._lines:
            yield line


_NOJSON = object()


class T:
    def __init__(self, resp):
        self.resp = resp
        self.calls = 0

    async def request(self, method, url, **kw):
        self.calls += 1
        return self.resp


def drive(coro):
    try:
        coro.send(None)
    except StopIteration as e:
        return e.value
    raise RuntimeError("coroutine suspended")


def collect(agen):
    out = []
    while True:
        try:
            out.append(drive(agen.__anext__()))
        except StopAsyncIteration:
            return out


def call(name, resp):
    t = T(resp)
    client = ep_solo.SoloClient(t, "http://h") if name == "get_either" else ep.DefaultClient(t, "http://h")
    return drive(getattr(client, name)()), t.calls


def _norm(d):
    if isinstance(d, dict):
        return {k: _norm(v) for k, v in d.items() if v is not None and v != [] and v != {}}
    if isinstance(d, list):
        return [_norm(x) for x in d]
    return d


def _item(i, has_name, name, n_tags):
    doc = {"id": i}
    if has_name:
        doc["displayName"] = name
    if n_tags:
        doc["tags"] = [name for _ in range(n_tags)]
    return doc


for _n, _r in [("get_item", Resp(200, {"id": 1, "displayName": "n", "tags": ["t"]})), ("list_items", Resp(200, [{"id": 1}])), ("get_alias", Resp(200, [{"id": 1}])),
               ("upsert_item", Resp(201, {"code": "c"})), ("upsert_reversed", Resp(201, {"code": "c"})), ("get_flavours", Resp(200, {"code": "c"}, ctype="application/hal+json")), ("get_vendor_item", Resp(200, {"id": 1})), ("get_with_default", Resp(200, {"id": 1})), ("get_shape", Resp(200, {"r": 1})),
               ("get_shape", Resp(200, {"side": 1})), ("get_label_sets", Resp(200, [{"a": "b"}])), ("get_labels", Resp(200, {"a": "b"})), ("get_profile", Resp(200, {"nick": "n"})),
               ("get_maybe_items", Resp(200, [{"id": 1}])), ("get_color", Resp(200, "red")), ("get_tone", Resp(200, "red")), ("get_colors", Resp(200, ["red"])), ("get_colors_inline", Resp(200, ["red"])), ("get_stamp", Resp(200, "2024-03-09T14:30:00")),
               ("get_stamps", Resp(200, ["2024-03-09T14:30:00"])), ("get_when", Resp(200, "2024-03-09T14:30:00")), ("get_day", Resp(200, "2024-02-29")), ("get_uid", Resp(200, "00000000-0000-0000-0000-000000000000")),
               ("get_uids", Resp(200, ["00000000-0000-0000-0000-000000000000"]))]:
    try:
        call(_n, _r)
    except Exception:
        pass


def ob_model_200(i: int, has_name: bool, name: str, n_tags: int) -> bool:
    """
    pre: len(name) <= 2 and 0 <= n_tags <= 2
    post: _
    """
    doc = _item(i, has_name, name, n_tags)
    v, calls = call("get_item", Resp(200, dict(doc)))
    return calls == 1 and isinstance(v, Item) and _norm(U(v)) == _norm(doc)


def tw_model_200(i: int, has_name: bool, name: str, n_tags: int) -> bool:
    """
    pre: len(name) <= 2 and 0 <= n_tags <= 2
    post: _
    """
    call("get_item", Resp(200, {"id": i}))
    return False


def ob_list_and_alias(alias: bool, n: int, i: int, has_name: bool, name: str) -> bool:
    """
    pre: 0 <= n <= 2 and len(name) <= 1
    post: _
    """
    docs = [_item(i + k, has_name, name, 0) for k in range(n)]
    v, _ = call("get_alias" if alias else "list_items", Resp(200, [dict(d) for d in docs]))
    return isinstance(v, list) and len(v) == n and all(isinstance(x, Item) for x in v) and [_norm(U(x)) for x in v] == [_norm(d) for d in docs]


def tw_list_and_alias(alias: bool, n: int, i: int, has_name: bool, name: str) -> bool:
    """
    pre: 0 <= n <= 2 and len(name) <= 1
    post: _
    """
    call("get_alias" if alias else "list_items", Resp(200, []))
    return False


MAP_KEYS = ["a", "x-y", ""]


def ob_map_objects(listed: bool, n: int, ki: int, v: str) -> bool:
    """
    pre: 0 <= n <= 2 and 0 <= ki <= 2 and len(v) <= 2
    post: _
    """
    # an object schema without declared properties is a class of its own: the body comes back as instances of it
    docs = [({MAP_KEYS[ki]: v} if j == 0 else {}) for j in range(n)]
    if listed:
        out, _ = call("get_label_sets", Resp(200, [dict(d) for d in docs]))
        return isinstance(out, list) and len(out) == n and all(isinstance(x, Labels) for x in out) and [U(x) for x in out] == docs
    doc = docs[0] if docs else {}
    out, _ = call("get_labels", Resp(200, dict(doc)))
    return isinstance(out, Labels) and U(out) == doc


def tw_map_objects(listed: bool, n: int, ki: int, v: str) -> bool:
    """
    pre: 0 <= n <= 2 and 0 <= ki <= 2 and len(v) <= 2
    post: _
    """
    call("get_label_sets", Resp(200, [{MAP_KEYS[ki]: v}]))
    return False


def ob_nullable_bodies(which: int, has_nick: bool, nick: str, n: int, i: int) -> bool:
    """
    pre: 0 <= which <= 4 and len(nick) <= 1 and 0 <= n <= 2
    post: _
    """
    # a nullable body may be null (-> None); an EMPTY object or array is not null
    if which == 0:
        return call("get_profile", Resp(200, None))[0] is None
    if which == 1:
        return call("get_profile", Resp(204, _NOJSON))[0] is None
    if which == 2:
        doc = {"nick": nick} if has_nick else {}
        out, _ = call("get_profile", Resp(200, dict(doc)))
        return isinstance(out, Profile) and _norm(U(out)) == _norm(doc)
    if which == 3:
        return call("get_maybe_items", Resp(200, None))[0] is None
    docs = [{"id": i + j} for j in range(n)]
    out, _ = call("get_maybe_items", Resp(200, [dict(d) for d in docs]))
    return isinstance(out, list) and len(out) == n and all(isinstance(x, Item) for x in out) and [_norm(U(x)) for x in out] == docs


def tw_nullable_bodies(which: int, has_nick: bool, nick: str, n: int, i: int) -> bool:
    """
    pre: 0 <= which <= 4 and len(nick) <= 1 and 0 <= n <= 2
    post: _
    """
    call("get_profile", Resp(200, {}))
    return False


STAMPS = ["2024-03-09T14:30:00", "1999-12-31T23:59:59.500000+00:00", "2024-01-02T03:04:05+02:00"]
DAYS = ["2024-02-29", "1970-01-01"]
UIDS = ["123e4567-e89b-12d3-a456-426614174000", "00000000-0000-0000-0000-000000000000"]
COLORS = ["red", "dark-blue"]


def ob_formatted_bodies(which: int, a: int, b: int, n: int) -> bool:
    """
    pre: 0 <= which <= 9 and 0 <= a <= 5 and 0 <= b <= 5 and 0 <= n <= 2
    post: _
    """
    # a body that is a formatted string or an enum value comes back as the annotated Python type, not as the raw text
    import datetime as dt
    import uuid

    if which <= 2:
        txt = STAMPS[a % 3]
        if which == 2:
            docs = [STAMPS[(a + k) % 3] for k in range(n)]
            v, _ = call("get_stamps", Resp(200, list(docs)))
            return isinstance(v, list) and len(v) == n and all(isinstance(x, dt.datetime) and x == dt.datetime.fromisoformat(d) for x, d in zip(v, docs))
        v, _ = call(["get_stamp", "get_when"][which], Resp(200, txt))
        return isinstance(v, dt.datetime) and v == dt.datetime.fromisoformat(txt)
    if which == 3:
        v, _ = call("get_day", Resp(200, DAYS[a % 2]))
        return isinstance(v, dt.date) and v.isoformat() == DAYS[a % 2]
    if which == 4:
        v, _ = call("get_uid", Resp(200, UIDS[a % 2]))
        return isinstance(v, uuid.UUID) and str(v) == UIDS[a % 2]
    if which == 5:
        docs = [UIDS[(a + k) % 2] for k in range(n)]
        v, _ = call("get_uids", Resp(200, list(docs)))
        return isinstance(v, list) and len(v) == n and all(isinstance(x, uuid.UUID) and str(x) == d for x, d in zip(v, docs))
    if which == 6:
        v, _ = call("get_color", Resp(200, COLORS[a % 2]))
        return isinstance(v, Color) and v.value == COLORS[a % 2]
    if which == 9:
        # the enum reference wrapped in allOf to make it nullable (OpenAPI 3.0 idiom)
        if a == 5:
            return call("get_tone", Resp(200, None))[0] is None
        v, _ = call("get_tone", Resp(200, COLORS[a % 2]))
        return isinstance(v, Color) and v.value == COLORS[a % 2]
    docs = [COLORS[(a + k * b) % 2] for k in range(n)]
    v, _ = call(["get_colors", "get_colors_inline"][which - 7], Resp(200, list(docs)))
    return isinstance(v, list) and len(v) == n and all(isinstance(x, Color) and x.value == d for x, d in zip(v, docs))


def tw_formatted_bodies(which: int, a: int, b: int, n: int) -> bool:
    """
    pre: 0 <= which <= 9 and 0 <= a <= 5 and 0 <= b <= 5 and 0 <= n <= 2
    post: _
    """
    call("get_color", Resp(200, COLORS[a % 2]))
    return False


def ob_primitives(is_int: bool, i: int, s: str) -> bool:
    """
    pre: len(s) <= 2
    post: _
    """
    if is_int:
        v, _ = call("get_count", Resp(200, i))
        return v == i and isinstance(v, int)
    v, _ = call("get_name", Resp(200, s))
    return v == s and isinstance(v, str)


def tw_primitives(is_int: bool, i: int, s: str) -> bool:
    """
    pre: len(s) <= 2
    post: _
    """
    call("get_count", Resp(200, i))
    return False


def ob_secondary_success(which: int, i: int, code: str) -> bool:
    """
    pre: 0 <= which <= 2 and len(code) <= 2
    post: _
    """
    if which == 0:  # 201 as the only declared success
        v, _ = call("create_item", Resp(201, {"id": i}))
        return isinstance(v, Item) and _norm(U(v)) == {"id": i}
    if which == 1:  # primary 200 of an operation that also declares 201
        v, _ = call("upsert_item", Resp(200, {"id": i}))
        return isinstance(v, Item) and _norm(U(v)) == {"id": i}
    v, _ = call("upsert_item", Resp(201, {"code": code}))  # secondary 201 with a different model
    return isinstance(v, Other) and _norm(U(v)) == _norm({"code": code})


def tw_secondary_success(which: int, i: int, code: str) -> bool:
    """
    pre: 0 <= which <= 2 and len(code) <= 2
    post: _
    """
    call("create_item", Resp(201, {"id": i}))
    return False


def ob_no_content(which: int, i: int) -> bool:
    """
    pre: 0 <= which <= 3
    post: _
    """
    if which == 0:
        return call("accept_job", Resp(202, _NOJSON))[0] is None
    if which == 1:
        return call("remove_item", Resp(204, _NOJSON))[0] is None
    if which == 2:
        return call("maybe_item", Resp(204, _NOJSON))[0] is None
    v, _ = call("maybe_item", Resp(200, {"id": i}))
    return isinstance(v, Item) and v.id_ == i if hasattr(v, "id_") else _norm(U(v)) == {"id": i}


def tw_no_content(which: int, i: int) -> bool:
    """
    pre: 0 <= which <= 3
    post: _
    """
    call("accept_job", Resp(202, _NOJSON))
    return False


def ob_text_plain(s: str) -> bool:
    """
    pre: len(s) <= 3
    post: _
    """
    v, _ = call("get_text", Resp(200, _NOJSON, text=s, content=b"", ctype="text/plain"))
    return v == s


def tw_text_plain(s: str) -> bool:
    """
    pre: len(s) <= 3
    post: _
    """
    try:
        call("get_text", Resp(200, _NOJSON, text=s, ctype="text/plain"))
    except Exception:
        pass
    return False


def ob_binary_stream(n: int, k: int) -> bool:
    """
    pre: 0 <= n <= 3 and 0 <= k <= 2
    post: _
    """
    chunks = [bytes([65 + j] * (k + 1)) for j in range(n)]
    r = Resp(200, _NOJSON, ctype="application/octet-stream")
    r._chunks = chunks
    t = T(r)
    got = collect(ep.DefaultClient(t, "http://h").get_blob())
    return got == chunks and t.calls == 1


def tw_binary_stream(n: int, k: int) -> bool:
    """
    pre: 0 <= n <= 3 and 0 <= k <= 2
    post: _
    """
    r = Resp(200, _NOJSON, ctype="application/octet-stream")
    r._chunks = []
    collect(ep.DefaultClient(T(r), "http://h").get_blob())
    return False


ND_IDS = [0, 7, -3]


def ob_ndjson_stream(n: int, i: int, j: int, blank: bool) -> bool:
    """
    pre: 0 <= n <= 2 and 0 <= i < 3 and 0 <= j < 3
    post: _
    """
    ids = [ND_IDS[i], ND_IDS[j]][:n]
    r = Resp(200, _NOJSON, ctype="application/x-ndjson")
    r._lines = ['{"id": %d}' % k for k in ids]
    if blank:
        r._lines.insert(0, "")  # a blank keep-alive line carries no record
    items = collect(ep.DefaultClient(T(r), "http://h").tail_items())
    return len(items) == n and all(isinstance(x, Item) and x.id_ == k for x, k in zip(items, ids))


def tw_ndjson_stream(n: int, i: int, j: int, blank: bool) -> bool:
    """
    pre: 0 <= n <= 2 and 0 <= i < 3 and 0 <= j < 3
    post: _
    """
    r = Resp(200, _NOJSON, ctype="application/x-ndjson")
    r._lines = ['{"id": %d}' % ND_IDS[i]]
    collect(ep.DefaultClient(T(r), "http://h").tail_items())
    return False


def ob_json_seq_stream(n: int, i: int, j: int) -> bool:
    """
    pre: 0 <= n <= 2 and 0 <= i < 3 and 0 <= j < 3
    post: _
    """
    # application/json-seq (RFC 7464): each record is RS + JSON + LF; httpx's line reader splits at RS too
    ids = [ND_IDS[i], ND_IDS[j]][:n]
    r = Resp(200, _NOJSON, ctype="application/json-seq")
    r._lines = []
    for k in ids:
        r._lines += ["", '{"id": %d}' % k]
    items = collect(ep.DefaultClient(T(r), "http://h").tail_seq())
    return len(items) == n and all(isinstance(x, Item) and x.id_ == k for x, k in zip(items, ids))


def tw_json_seq_stream(n: int, i: int, j: int) -> bool:
    """
    pre: 0 <= n <= 2 and 0 <= i < 3 and 0 <= j < 3
    post: _
    """
    r = Resp(200, _NOJSON, ctype="application/json-seq")
    r._lines = ["", '{"id": 1}']
    collect(ep.DefaultClient(T(r), "http://h").tail_seq())
    return False


SSE_TEXTS = ["hello", "5", "{}", "a b"]


def ob_sse_json_events(n: int, i: int, j: int) -> bool:
    """
    pre: 0 <= n <= 2 and 0 <= i < 3 and 0 <= j < 3
    post: _
    """
    # an event stream whose events carry JSON objects: one item per event, in order
    ids = [ND_IDS[i], ND_IDS[j]][:n]
    r = Resp(200, _NOJSON, ctype="text/event-stream")
    r._lines = []
    for k in ids:
        r._lines += ['data: {"id": %d}' % k, ""]
    items = collect(ep.DefaultClient(T(r), "http://h").tail_changes())
    return len(items) == n and all((x.get("id") if isinstance(x, dict) else getattr(x, "id_", None)) == k for x, k in zip(items, ids))


def tw_sse_json_events(n: int, i: int, j: int) -> bool:
    """
    pre: 0 <= n <= 2 and 0 <= i < 3 and 0 <= j < 3
    post: _
    """
    r = Resp(200, _NOJSON, ctype="text/event-stream")
    r._lines = ['data: {"id": 1}', ""]
    collect(ep.DefaultClient(T(r), "http://h").tail_changes())
    return False


def kf_sse_text_events(n: int, i: int, j: int) -> bool:
    """
    pre: 1 <= n <= 2 and 0 <= i < 4 and 0 <= j < 4
    post: _
    """
    # the events of a stream declared `schema: {type: string}` are texts: exactly what the server sent, in order
    texts = [SSE_TEXTS[i], SSE_TEXTS[j]][:n]
    r = Resp(200, _NOJSON, ctype="text/event-stream")
    r._lines = []
    for t in texts:
        r._lines += ["data: " + t, ""]
    items = collect(ep.DefaultClient(T(r), "http://h").tail_ticks())
    return items == texts


def ob_vendor_json_item(i: int, has_name: bool, name: str) -> bool:
    """
    pre: len(name) <= 2
    post: _
    """
    doc = _item(i, has_name, name, 0)
    v, _ = call("get_vendor_item", Resp(200, dict(doc), ctype="application/vnd.acme.item+json"))
    return isinstance(v, Item) and _norm(U(v)) == _norm(doc)


def tw_vendor_json_item(i: int, has_name: bool, name: str) -> bool:
    """
    pre: len(name) <= 2
    post: _
    """
    call("get_vendor_item", Resp(200, {"id": i}, ctype="application/vnd.acme.item+json"))
    return False


def ob_vendor_json_string(s: str) -> bool:
    """
    pre: len(s) <= 2
    post: _
    """
    # a JSON document that is a string: the caller gets the decoded string, not the document's text
    v, _ = call("get_vendor_token", Resp(200, s, text="<quoted JSON text>", ctype="application/vnd.acme.token+json"))
    return v == s


def tw_vendor_json_string(s: str) -> bool:
    """
    pre: len(s) <= 2
    post: _
    """
    call("get_vendor_token", Resp(200, s, text="<quoted JSON text>", ctype="application/vnd.acme.token+json"))
    return False


CT_JSON = ["application/json", "application/json; charset=utf-8", "Application/JSON"]
CT_TEXT = ["text/plain", "text/plain; charset=utf-8", "TEXT/PLAIN"]


def ob_two_content_types(as_json: bool, c: int, i: int, s: str) -> bool:
    """
    pre: 0 <= c <= 2 and len(s) <= 2
    post: _
    """
    if as_json:
        v, _ = call("get_either", Resp(200, {"id": i}, ctype=CT_JSON[c]))
        return isinstance(v, Item) and _norm(U(v)) == {"id": i}
    v, _ = call("get_either", Resp(200, _NOJSON, text=s, ctype=CT_TEXT[c]))
    return v == s


def tw_two_content_types(as_json: bool, c: int, i: int, s: str) -> bool:
    """
    pre: 0 <= c <= 2 and len(s) <= 2
    post: _
    """
    call("get_either", Resp(200, {"id": i}, ctype=CT_JSON[c]))
    return False


def ob_default_declared_200(i: int, has_name: bool, name: str) -> bool:
    """
    pre: len(name) <= 2
    post: _
    """
    doc = _item(i, has_name, name, 0)
    v, _ = call("get_with_default", Resp(200, dict(doc)))
    return isinstance(v, Item) and _norm(U(v)) == _norm(doc)


def tw_default_declared_200(i: int, has_name: bool, name: str) -> bool:
    """
    pre: len(name) <= 2
    post: _
    """
    call("get_with_default", Resp(200, {"id": i}))
    return False


def ob_union_body(square: bool, v: int) -> bool:
    """
    post: _
    """
    doc = {"side": v} if square else {"r": v}
    x, _ = call("get_shape", Resp(200, dict(doc)))
    return isinstance(x, Square if square else Circle) and _norm(U(x)) == doc


def tw_union_body(square: bool, v: int) -> bool:
    """
    post: _
    """
    call("get_shape", Resp(200, {"r": v}))
    return False


def _conforms(v, ann):
    import types
    import typing

    if ann is None or ann is type(None):
        return v is None
    origin = typing.get_origin(ann)
    if origin in (typing.Union, types.UnionType):
        return any(_conforms(v, a) for a in typing.get_args(ann))
    if origin is list:
        return isinstance(v, list)
    if isinstance(ann, type):
        return isinstance(v, ann)
    return True


def _ann_case(which, i, code):
    import typing

    name, resp = [("upsert_item", Resp(200, {"id": i})), ("upsert_item", Resp(201, {"code": code})),
                  ("maybe_item", Resp(200, {"id": i})), ("maybe_item", Resp(204, _NOJSON))][which]
    v, _ = call(name, resp)
    ann = typing.get_type_hints(getattr(ep.DefaultClient, name)).get("return")
    return _conforms(v, ann)


def ob_return_annotation(which: int, i: int, code: str) -> bool:
    """
    pre: which in (0, 2) and len(code) <= 1
    post: _
    """
    # the primary success response; the secondary ones are the listed known finding probed by kf_return_annotation
    return _ann_case(which, i, code)


def tw_return_annotation(which: int, i: int, code: str) -> bool:
    """
    pre: which in (0, 2) and len(code) <= 1
    post: _
    """
    _ann_case(which, i, code)
    return False


def kf_return_annotation(which: int, i: int, code: str) -> bool:
    """
    pre: which in (1, 3) and len(code) <= 1
    post: _
    """
    return _ann_case(which, i, code)


# kf_* conditions probe listed known findings (see /verif/known_findings.json): label of the finding each one witnesses
KNOWN = {"kf_return_annotation": lambda which, i, code: "secondary-2xx-not-in-annotation", "kf_sse_text_events": lambda n, i, j: "sse-declared-item-schema-ignored"}


def ob_declaration_order_of_successes(which: int, i: int, code: str) -> bool:
    """
    pre: 0 <= which <= 2 and len(code) <= 2
    post: _
    """
    # the same responses as upsert_item / maybe_item, declared lower-priority status first
    if which == 0:
        v, _ = call("upsert_reversed", Resp(200, {"id": i}))
        return isinstance(v, Item) and _norm(U(v)) == {"id": i}
    if which == 1:
        v, _ = call("upsert_reversed", Resp(201, {"code": code}))
        return isinstance(v, Other) and _norm(U(v)) == _norm({"code": code})
    v, _ = call("nothing_or_item", Resp(200, {"id": i}))
    return isinstance(v, Item) and _norm(U(v)) == {"id": i}


def tw_declaration_order_of_successes(which: int, i: int, code: str) -> bool:
    """
    pre: 0 <= which <= 2 and len(code) <= 2
    post: _
    """
    call("upsert_reversed", Resp(200, {"id": i}))
    return False


CT_HAL = ["application/hal+json", "application/hal+json; charset=utf-8", "Application/HAL+JSON"]


def ob_json_flavours(hal: bool, c: int, i: int, code: str) -> bool:
    """
    pre: 0 <= c <= 2 and len(code) <= 2
    post: _
    """
    if hal:
        v, _ = call("get_flavours", Resp(200, {"code": code}, ctype=CT_HAL[c]))
        return isinstance(v, Other) and _norm(U(v)) == _norm({"code": code})
    v, _ = call("get_flavours", Resp(200, {"id": i}, ctype=CT_JSON[c]))
    return isinstance(v, Item) and _norm(U(v)) == {"id": i}


def tw_json_flavours(hal: bool, c: int, i: int, code: str) -> bool:
    """
    pre: 0 <= c <= 2 and len(code) <= 2
    post: _
    """
    call("get_flavours", Resp(200, {"id": i}, ctype=CT_JSON[c]))
    return False
