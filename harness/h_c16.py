"""C16 harness (CrossHair): laws of the bundled converter on a stated family F of mapped dataclasses.

Every `ob_*` is a PEP-316 condition whose arguments CrossHair makes symbolic (leaf strings, ints, presence flags, list
lengths, edge indices); its body calls the REAL structure_from_dict / unstructure_to_dict / DataclassSerializer from
/repo and returns the law.  `tw_*` is the reachability twin of the condition with the same name (must be refuted).
The global converter is history dependent (hooks are registered on first use of each class): the harness warms it up
concretely at import in the order selected by VERIF_WARM (the check runs every condition under several orders).
"""
from __future__ import annotations

import datetime as dt
import os
from dataclasses import dataclass, field
from typing import Dict, List, Optional

from xh_support import is_json_data, prepare_cattrs

conv = prepare_cattrs("pyopenapi_gen.core.cattrs_converter")
structure_from_dict = conv.structure_from_dict
unstructure_to_dict = conv.unstructure_to_dict
from pyopenapi_gen.core.utils import DataclassSerializer  # noqa: E402


@dataclass
class Plain:
    a: str
    b: int
    c: Optional[str] = None


@dataclass
class Mapped:
    first_name: str
    class_: int
    id_: Optional[str] = None

    class Meta:
        key_transform_with_load = {"firstName": "first_name", "class": "class_", "id": "id_"}
        key_transform_with_dump = {"first_name": "firstName", "class_": "class", "id_": "id"}


@dataclass
class Unmapped:
    """field names that look like sanitised keywords, but NO key maps: the wire keys are the field names themselves"""

    id_: int
    from_: str
    type_: Optional[str] = None


@dataclass
class PartlyMapped:
    """only one field is renamed; the others keep their names on the wire"""

    class_: int
    id_: str

    class Meta:
        key_transform_with_load = {"class": "class_"}
        key_transform_with_dump = {"class_": "class"}


@dataclass
class CaseKeys:
    name: str
    name_upper: str

    class Meta:
        key_transform_with_load = {"name": "name", "Name": "name_upper"}
        key_transform_with_dump = {"name": "name", "name_upper": "Name"}


@dataclass
class Leafy:
    when: dt.datetime
    day: Optional[dt.date] = None
    blob: Optional[bytes] = None
    flag: bool = False
    ratio: Optional[float] = None


@dataclass
class Nested:
    inner: Mapped
    items: List[Plain] = field(default_factory=list)
    m: Dict[str, int] = field(default_factory=dict)
    opt: Optional[Plain] = None


@dataclass
class Deep:
    nested: Nested
    by_key: Dict[str, Mapped] = field(default_factory=dict)
    rows: List[List[int]] = field(default_factory=list)

    class Meta:
        key_transform_with_load = {"nested": "nested", "byKey": "by_key", "rows": "rows"}
        key_transform_with_dump = {"nested": "nested", "by_key": "byKey", "rows": "rows"}


@dataclass
class Node:
    name: str
    next: Optional["Node"] = None
    children: List["Node"] = field(default_factory=list)


WHENS = ["2024-01-02T03:04:05", "2024-01-02T03:04:05+00:00", "1999-12-31T23:59:59.123456+02:00"]
DAYS = ["2024-02-29", "1970-01-01"]
BLOBS = ["", "AA==", "aGVsbG8=", "++++/v79/A=="]  # the last one uses both characters that differ between the base64 alphabets

_WARM = [
    (Plain, {"a": "x", "b": 1}),
    (Mapped, {"firstName": "x", "class": 1}),
    (CaseKeys, {"name": "a", "Name": "b"}),
    (Unmapped, {"id_": 1, "from_": "f", "type_": "t"}),
    (PartlyMapped, {"class": 1, "id_": "i"}),
    (Leafy, {"when": WHENS[0], "day": DAYS[0], "blob": BLOBS[1], "flag": True, "ratio": 1.5}),
    (Nested, {"inner": {"firstName": "x", "class": 1}, "items": [{"a": "x", "b": 1}], "m": {"k": 1}, "opt": {"a": "y", "b": 2}}),
    (Deep, {"nested": {"inner": {"firstName": "x", "class": 1}}, "byKey": {"k": {"firstName": "y", "class": 2}}, "rows": [[1]]}),
]
_order = int(os.environ.get("VERIF_WARM", "0") or 0)
_seq = list(_WARM)
if _order == 1:
    _seq.reverse()  # containers first: nested classes get their hooks through the recursive registration
elif _order == 2:
    _seq = _seq[3:] + _seq[:3]
for _t, _d in _seq:
    if _order == 1:
        # unstructure first (an instance built by hand), then structure
        pass
    try:
        unstructure_to_dict(structure_from_dict(_d, _t))
    except Exception:  # a failing warm-up is reported by the conditions themselves
        pass
try:
    DataclassSerializer.serialize(Node("w", next=Node("v")))
except Exception:
    pass


def _norm(d):
    """tolerance (C03's): an absent optional may come back as null / an empty container"""
    if isinstance(d, dict):
        return {k: _norm(v) for k, v in d.items() if v is not None and v != [] and v != {}}
    if isinstance(d, list):
        return [_norm(x) for x in d]
    return d


# ------------------------------------------------------------------ decode -> encode
def ob_plain_decode_encode(a: str, b: int, has_c: bool, c: str) -> bool:
    """
    pre: len(a) <= 2 and len(c) <= 2
    post: _
    """
    doc = {"a": a, "b": b}
    if has_c:
        doc["c"] = c
    obj = structure_from_dict(dict(doc), Plain)
    if not (obj.a == a and obj.b == b and obj.c == (c if has_c else None)):
        return False
    back = unstructure_to_dict(obj)
    return _norm(back) == _norm(doc) and set(back) <= {"a", "b", "c"}


def tw_plain_decode_encode(a: str, b: int, has_c: bool, c: str) -> bool:
    """
    pre: len(a) <= 2 and len(c) <= 2
    post: _
    """
    doc = {"a": a, "b": b}
    if has_c:
        doc["c"] = c
    unstructure_to_dict(structure_from_dict(dict(doc), Plain))
    return False


def ob_mapped_decode_encode(fn: str, cl: int, has_id: bool, i: str) -> bool:
    """
    pre: len(fn) <= 2 and len(i) <= 2
    post: _
    """
    doc = {"firstName": fn, "class": cl}
    if has_id:
        doc["id"] = i
    obj = structure_from_dict(dict(doc), Mapped)
    if not (obj.first_name == fn and obj.class_ == cl and obj.id_ == (i if has_id else None)):
        return False
    back = unstructure_to_dict(obj)
    return _norm(back) == _norm(doc) and set(back) <= {"firstName", "class", "id"}


def tw_mapped_decode_encode(fn: str, cl: int, has_id: bool, i: str) -> bool:
    """
    pre: len(fn) <= 2 and len(i) <= 2
    post: _
    """
    doc = {"firstName": fn, "class": cl}
    if has_id:
        doc["id"] = i
    unstructure_to_dict(structure_from_dict(dict(doc), Mapped))
    return False


def ob_casekeys_decode_encode(n: str, u: str) -> bool:
    """
    pre: len(n) <= 2 and len(u) <= 2
    post: _
    """
    doc = {"name": n, "Name": u}
    obj = structure_from_dict(dict(doc), CaseKeys)
    return obj.name == n and obj.name_upper == u and unstructure_to_dict(obj) == doc


def tw_casekeys_decode_encode(n: str, u: str) -> bool:
    """
    pre: len(n) <= 2 and len(u) <= 2
    post: _
    """
    unstructure_to_dict(structure_from_dict({"name": n, "Name": u}, CaseKeys))
    return False


def ob_leafy_decode_encode(w: int, has_day: bool, d: int, has_blob: bool, b: int, flag: bool) -> bool:
    """
    pre: 0 <= w < 3 and 0 <= d < 2 and 0 <= b < 4
    post: _
    """
    doc = {"when": WHENS[w], "flag": flag}
    if has_day:
        doc["day"] = DAYS[d]
    if has_blob:
        doc["blob"] = BLOBS[b]
    obj = structure_from_dict(dict(doc), Leafy)
    if not (isinstance(obj.when, dt.datetime) and obj.flag == flag):
        return False
    back = unstructure_to_dict(obj)
    # datetimes may legitimately re-render in another equivalent ISO form: compare as instants
    if dt.datetime.fromisoformat(back["when"]) != dt.datetime.fromisoformat(doc["when"]):
        return False
    back2 = dict(_norm(back))
    doc2 = dict(_norm(doc))
    back2.pop("when")
    doc2.pop("when")
    if not flag:
        back2.pop("flag", None)
        doc2.pop("flag", None)
    return back2 == doc2


def tw_leafy_decode_encode(w: int, has_day: bool, d: int, has_blob: bool, b: int, flag: bool) -> bool:
    """
    pre: 0 <= w < 3 and 0 <= d < 2 and 0 <= b < 4
    post: _
    """
    unstructure_to_dict(structure_from_dict({"when": WHENS[w], "flag": flag}, Leafy))
    return False


def ob_nested_decode_encode(fn: str, cl: int, a: str, b: int, n_items: int, has_opt: bool, mv: int, has_m: bool) -> bool:
    """
    pre: len(fn) <= 1 and len(a) <= 1 and 0 <= n_items <= 2
    post: _
    """
    import copy

    doc = {"inner": {"firstName": fn, "class": cl}}
    if n_items:
        doc["items"] = [{"a": a, "b": b + k} for k in range(n_items)]
    if has_m:
        doc["m"] = {"k": mv}
    if has_opt:
        doc["opt"] = {"a": a, "b": b}
    back = unstructure_to_dict(structure_from_dict(copy.deepcopy(doc), Nested))
    return _norm(back) == _norm(doc)


def tw_nested_decode_encode(fn: str, cl: int, a: str, b: int, n_items: int, has_opt: bool, mv: int, has_m: bool) -> bool:
    """
    pre: len(fn) <= 1 and len(a) <= 1 and 0 <= n_items <= 2
    post: _
    """
    unstructure_to_dict(structure_from_dict({"inner": {"firstName": fn, "class": cl}}, Nested))
    return False


def ob_deep_decode_encode(fn: str, cl: int, has_by: bool, n_rows: int, r: int) -> bool:
    """
    pre: len(fn) <= 1 and 0 <= n_rows <= 2
    post: _
    """
    import copy

    doc = {"nested": {"inner": {"firstName": fn, "class": cl}, "opt": {"a": fn, "b": r}}}
    if has_by:
        doc["byKey"] = {"k": {"firstName": fn, "class": cl + 1, "id": fn}}
    if n_rows:
        doc["rows"] = [[r + k, r] for k in range(n_rows)]
    obj = structure_from_dict(copy.deepcopy(doc), Deep)
    if has_by and not (isinstance(obj.by_key["k"], Mapped) and obj.by_key["k"].id_ == fn):
        return False
    return _norm(unstructure_to_dict(obj)) == _norm(doc)


def tw_deep_decode_encode(fn: str, cl: int, has_by: bool, n_rows: int, r: int) -> bool:
    """
    pre: len(fn) <= 1 and 0 <= n_rows <= 2
    post: _
    """
    unstructure_to_dict(structure_from_dict({"nested": {"inner": {"firstName": fn, "class": cl}}}, Deep))
    return False


def ob_unmapped_keyword_like_fields(i: int, f: str, has_t: bool, t: str, partly: bool) -> bool:
    """
    pre: len(f) <= 2 and len(t) <= 1
    post: _
    """
    if partly:
        doc = {"class": i, "id_": f}
        obj = structure_from_dict(dict(doc), PartlyMapped)
        back = unstructure_to_dict(obj)
        return obj.class_ == i and obj.id_ == f and back == doc and structure_from_dict(dict(back), PartlyMapped) == obj
    doc = {"id_": i, "from_": f}
    if has_t:
        doc["type_"] = t
    obj = structure_from_dict(dict(doc), Unmapped)
    back = unstructure_to_dict(obj)
    return _norm(back) == _norm(doc) and set(back) <= {"id_", "from_", "type_"} and structure_from_dict(dict(back), Unmapped) == obj


def tw_unmapped_keyword_like_fields(i: int, f: str, has_t: bool, t: str, partly: bool) -> bool:
    """
    pre: len(f) <= 2 and len(t) <= 1
    post: _
    """
    unstructure_to_dict(structure_from_dict({"id_": i, "from_": f}, Unmapped))
    return False


def ob_encode_after_failed_encode(w: int, n: int, fn: str, nested: bool) -> bool:
    """
    pre: 0 <= w < 3 and 0 <= n <= 2 and len(fn) <= 1
    post: _
    """
    # history: an encode fails half-way (a bytes field holding text), the value is repaired, the SAME instances are encoded again
    leaf = Leafy(when=INSTANTS[w], blob="not bytes")  # type: ignore[arg-type]
    holder = Nested(inner=Mapped(first_name=fn, class_=n), items=[Plain(a=fn, b=n)])
    try:
        unstructure_to_dict(leaf)
        return False  # a str in a bytes field cannot be base64-encoded
    except Exception:
        pass
    if nested:
        try:
            DataclassSerializer.serialize({"bad": leaf, "good": holder})
        except Exception:
            pass
    leaf.blob = bytes(range(n))
    again = unstructure_to_dict(leaf)
    if not isinstance(again, dict) or structure_from_dict(dict(again), Leafy) != leaf:
        return False
    h = unstructure_to_dict(holder)
    return isinstance(h, dict) and structure_from_dict(h, Nested) == holder and DataclassSerializer.serialize(leaf) is not None


def tw_encode_after_failed_encode(w: int, n: int, fn: str, nested: bool) -> bool:
    """
    pre: 0 <= w < 3 and 0 <= n <= 2 and len(fn) <= 1
    post: _
    """
    unstructure_to_dict(Leafy(when=INSTANTS[w], blob=bytes(range(n))))
    return False


# ------------------------------------------------------------------ encode -> decode
def ob_mapped_encode_decode(fn: str, cl: int, has_id: bool, i: str) -> bool:
    """
    pre: len(fn) <= 2 and len(i) <= 2
    post: _
    """
    obj = Mapped(first_name=fn, class_=cl, id_=i if has_id else None)
    return structure_from_dict(unstructure_to_dict(obj), Mapped) == obj


def tw_mapped_encode_decode(fn: str, cl: int, has_id: bool, i: str) -> bool:
    """
    pre: len(fn) <= 2 and len(i) <= 2
    post: _
    """
    structure_from_dict(unstructure_to_dict(Mapped(first_name=fn, class_=cl, id_=i if has_id else None)), Mapped)
    return False


def ob_nested_encode_decode(fn: str, cl: int, a: str, b: int, n_items: int, has_opt: bool) -> bool:
    """
    pre: len(fn) <= 1 and len(a) <= 1 and 0 <= n_items <= 2
    post: _
    """
    obj = Nested(inner=Mapped(first_name=fn, class_=cl), items=[Plain(a=a, b=b + k) for k in range(n_items)], m={"k": b},
                 opt=Plain(a=a, b=b, c=fn) if has_opt else None)
    return structure_from_dict(unstructure_to_dict(obj), Nested) == obj


def tw_nested_encode_decode(fn: str, cl: int, a: str, b: int, n_items: int, has_opt: bool) -> bool:
    """
    pre: len(fn) <= 1 and len(a) <= 1 and 0 <= n_items <= 2
    post: _
    """
    structure_from_dict(unstructure_to_dict(Nested(inner=Mapped(first_name=fn, class_=cl))), Nested)
    return False


INSTANTS = [dt.datetime(2024, 1, 2, 3, 4, 5), dt.datetime(1999, 12, 31, 23, 59, 59, 123456, tzinfo=dt.timezone.utc),
            dt.datetime(2030, 6, 15, 12, 0, 0, tzinfo=dt.timezone(dt.timedelta(hours=2)))]


def ob_leafy_encode_decode(w: int, has_day: bool, d: int, has_blob: bool, n: int, flag: bool) -> bool:
    """
    pre: 0 <= w < 3 and 0 <= d < 2 and 0 <= n <= 3
    post: _
    """
    obj = Leafy(when=INSTANTS[w], day=dt.date.fromisoformat(DAYS[d]) if has_day else None,
                blob=bytes(range(n)) if has_blob else None, flag=flag)
    return structure_from_dict(unstructure_to_dict(obj), Leafy) == obj


def tw_leafy_encode_decode(w: int, has_day: bool, d: int, has_blob: bool, n: int, flag: bool) -> bool:
    """
    pre: 0 <= w < 3 and 0 <= d < 2 and 0 <= n <= 3
    post: _
    """
    structure_from_dict(unstructure_to_dict(Leafy(when=INSTANTS[w])), Leafy)
    return False


# ------------------------------------------------------------------ decoding failures name the field
def ob_plain_type_confusion(a: str, kind: int) -> bool:
    """
    pre: len(a) <= 2 and 0 <= kind <= 2
    post: _
    """
    bad = [[1], {"x": 1}, "zz"][kind]
    try:
        structure_from_dict({"a": a, "b": bad}, Plain)
    except ValueError as e:
        return "b" in str(e).split(":")[1] if ":" in str(e) else False
    return False


def tw_plain_type_confusion(a: str, kind: int) -> bool:
    """
    pre: len(a) <= 2 and 0 <= kind <= 2
    post: _
    """
    try:
        structure_from_dict({"a": a, "b": [[1], {"x": 1}, "zz"][kind]}, Plain)
    except ValueError:
        pass
    return False


def ob_nested_missing_required(fn: str, which: int) -> bool:
    """
    pre: len(fn) <= 2 and 0 <= which <= 2
    post: _
    """
    if which == 0:
        doc, needle = {"inner": {"firstName": fn}}, "class"  # required key missing in a nested, mapped class
    elif which == 1:
        doc, needle = {"inner": {"firstName": fn, "class": 1}, "items": [{"a": fn}]}, "b"
    else:
        doc, needle = {"inner": {"firstName": fn, "class": 1}, "opt": {"b": 2}}, "a"
    try:
        structure_from_dict(doc, Nested)
    except ValueError as e:
        return needle in str(e)
    return False


def tw_nested_missing_required(fn: str, which: int) -> bool:
    """
    pre: len(fn) <= 2 and 0 <= which <= 2
    post: _
    """
    try:
        structure_from_dict({"inner": {"firstName": fn}}, Nested)
    except ValueError:
        pass
    return False


# ------------------------------------------------------------------ the convenience serialiser
def _graph(names, nxt, kids):
    nodes = [Node(n) for n in names]
    for i, j in enumerate(nxt):
        if 0 <= j < len(nodes):
            nodes[i].next = nodes[j]
    for i, j in enumerate(kids):
        if 0 <= j < len(nodes):
            nodes[i].children.append(nodes[j])
    return nodes


def _no_null_keys(x):
    if isinstance(x, dict):
        return all(v is not None and _no_null_keys(v) for v in x.values())
    if isinstance(x, list):
        return all(_no_null_keys(v) for v in x)
    return True


def ob_serializer_cycles_next(n0: int, n1: int, n2: int, name: str) -> bool:
    """
    pre: -1 <= n0 <= 2 and -1 <= n1 <= 2 and -1 <= n2 <= 2 and len(name) <= 1
    post: _
    """
    nodes = _graph([name, "b", "c"], [n0, n1, n2], [-1, -1, -1])
    out = DataclassSerializer.serialize(nodes[0])
    return isinstance(out, dict) and out.get("name") == name and is_json_data(out) and _no_null_keys(out)


def tw_serializer_cycles_next(n0: int, n1: int, n2: int, name: str) -> bool:
    """
    pre: -1 <= n0 <= 2 and -1 <= n1 <= 2 and -1 <= n2 <= 2 and len(name) <= 1
    post: _
    """
    DataclassSerializer.serialize(_graph([name, "b", "c"], [n0, n1, n2], [-1, -1, -1])[0])
    return False


def ob_serializer_cycles_children(k0: int, k1: int, k2: int, name: str) -> bool:
    """
    pre: -1 <= k0 <= 2 and -1 <= k1 <= 2 and -1 <= k2 <= 2 and len(name) <= 1
    post: _
    """
    nodes = _graph([name, "b", "c"], [-1, -1, -1], [k0, k1, k2])
    out = DataclassSerializer.serialize(nodes[0])
    return isinstance(out, dict) and out.get("name") == name and is_json_data(out) and _no_null_keys(out)


def tw_serializer_cycles_children(k0: int, k1: int, k2: int, name: str) -> bool:
    """
    pre: -1 <= k0 <= 2 and -1 <= k1 <= 2 and -1 <= k2 <= 2 and len(name) <= 1
    post: _
    """
    DataclassSerializer.serialize(_graph([name, "b", "c"], [-1, -1, -1], [k0, k1, k2])[0])
    return False


def ob_serializer_cycles_mixed(n0: int, n1: int, k0: int, k1: int) -> bool:
    """
    pre: -1 <= n0 <= 1 and -1 <= n1 <= 1 and -1 <= k0 <= 1 and -1 <= k1 <= 1
    post: _
    """
    nodes = _graph(["a", "b"], [n0, n1], [k0, k1])
    out = DataclassSerializer.serialize([nodes[0], {"x": nodes[1]}])
    return isinstance(out, list) and len(out) == 2 and is_json_data(out) and _no_null_keys(out)


def tw_serializer_cycles_mixed(n0: int, n1: int, k0: int, k1: int) -> bool:
    """
    pre: -1 <= n0 <= 1 and -1 <= n1 <= 1 and -1 <= k0 <= 1 and -1 <= k1 <= 1
    post: _
    """
    DataclassSerializer.serialize(_graph(["a", "b"], [n0, n1], [k0, k1]))
    return False


def ob_shared_subobject_encode_decode(a: str, b: int, n_items: int, share_opt: bool, twice: bool) -> bool:
    """
    pre: len(a) <= 1 and 0 <= n_items <= 2
    post: _
    """
    # one Plain instance reachable several times (list items, the optional field) without any cycle: identity sharing must
    # not change what is encoded, within one call and across two calls on the same object
    p = Plain(a=a, b=b)
    obj = Nested(inner=Mapped(first_name=a, class_=b), items=[p for _ in range(n_items)], opt=p if share_opt else None)
    if twice:
        unstructure_to_dict(obj)
    enc = unstructure_to_dict(obj)
    want = {"a": a, "b": b}
    if len(enc.get("items", [])) != n_items or any(not isinstance(x, dict) or {k: v for k, v in x.items() if v is not None} != want for x in enc.get("items", [])):
        return False
    return structure_from_dict(enc, Nested) == obj


def tw_shared_subobject_encode_decode(a: str, b: int, n_items: int, share_opt: bool, twice: bool) -> bool:
    """
    pre: len(a) <= 1 and 0 <= n_items <= 2
    post: _
    """
    p = Plain(a=a, b=b)
    structure_from_dict(unstructure_to_dict(Nested(inner=Mapped(first_name=a, class_=b), items=[p, p], opt=p)), Nested)
    return False


def ob_serializer_shared_acyclic(name: str, in_next: bool, n_kids: int, wrap: bool) -> bool:
    """
    pre: len(name) <= 1 and 0 <= n_kids <= 2
    post: _
    """
    # a DAG, not a cycle: the leaf is reachable through next and through children; the output is the tree expansion
    leaf = Node(name)
    root = Node("r", next=leaf if in_next else None, children=[leaf for _ in range(n_kids)])
    out = DataclassSerializer.serialize([root, {"x": leaf}] if wrap else root)
    r = out[0] if wrap else out
    if wrap and (not isinstance(out[1], dict) or not isinstance(out[1].get("x"), dict) or out[1]["x"].get("name") != name):
        return False
    if not isinstance(r, dict) or r.get("name") != "r":
        return False
    if in_next and (not isinstance(r.get("next"), dict) or r["next"].get("name") != name):
        return False
    kids = r.get("children", [])
    return len(kids) == n_kids and all(isinstance(k, dict) and k.get("name") == name for k in kids) and is_json_data(out)


def tw_serializer_shared_acyclic(name: str, in_next: bool, n_kids: int, wrap: bool) -> bool:
    """
    pre: len(name) <= 1 and 0 <= n_kids <= 2
    post: _
    """
    leaf = Node(name)
    DataclassSerializer.serialize(Node("r", next=leaf, children=[leaf]))
    return False


def ob_serializer_values(a: str, b: int, has_c: bool, n: int) -> bool:
    """
    pre: len(a) <= 2 and 0 <= n <= 2
    post: _
    """
    payload = {"p": Plain(a=a, b=b, c=a if has_c else None), "l": [Mapped(first_name=a, class_=b + k) for k in range(n)], "z": None}
    out = DataclassSerializer.serialize(payload)
    want = {"p": {"a": a, "b": b}, "l": [{"firstName": a, "class": b + k} for k in range(n)]}
    if has_c:
        want["p"]["c"] = a
    return out == want and is_json_data(out) and _no_null_keys(out)


def tw_serializer_values(a: str, b: int, has_c: bool, n: int) -> bool:
    """
    pre: len(a) <= 2 and 0 <= n <= 2
    post: _
    """
    DataclassSerializer.serialize({"p": Plain(a=a, b=b)})
    return False


def ob_serializer_list_cycles(kind: int, name: str) -> bool:
    """
    pre: 0 <= kind <= 5 and len(name) <= 1
    post: _
    """
    if kind == 3:  # a dict that contains itself
        d = {"name": name}
        d["self"] = d
        payload = d
    elif kind == 4:  # parent / child dicts pointing at each other, inside a list
        parent, child = {"name": name}, {"name": "c"}
        parent["child"] = child
        child["parent"] = parent
        payload = [parent, child]
    elif kind == 5:  # a dict reaching itself through a dataclass field
        d = {"name": name}
        d["holder"] = Nested(inner=Mapped(first_name=name, class_=1), m={})
        d["again"] = d
        payload = d
    elif kind == 0:  # a list that contains itself
        lst = [name]
        lst.append(lst)
        payload = lst
    elif kind == 1:  # outer -> inner -> outer
        outer, inner = [name], [name]
        outer.append(inner)
        inner.append(outer)
        payload = {"k": outer}
    else:  # a dataclass reaching a list that contains the dataclass's own container
        n = Node(name)
        box = [n]
        n.children.append(Node("c"))
        payload = {"box": box, "again": box}
    out = DataclassSerializer.serialize(payload)
    return is_json_data(out) and _no_null_keys(out)


def tw_serializer_list_cycles(kind: int, name: str) -> bool:
    """
    pre: 0 <= kind <= 2 and len(name) <= 1
    post: _
    """
    DataclassSerializer.serialize([name])
    return False


def _factory(extra):
    """two distinct classes with the same module and qualified name, as a model factory or a re-generated module produces"""
    import dataclasses as dc

    if extra:
        return dc.make_dataclass("Model", [("ident", str), ("qty", int)], namespace={"Meta": type("Meta", (), {
            "key_transform_with_load": {"id": "ident", "qty": "qty"}, "key_transform_with_dump": {"ident": "id", "qty": "qty"}})})
    return dc.make_dataclass("Model", [("name", str)])


_MA, _MB = _factory(False), _factory(True)
for _t, _d in [(_MA, {"name": "w"}), (_MB, {"id": "w", "qty": 1})]:
    try:
        unstructure_to_dict(structure_from_dict(_d, _t))
    except Exception:
        pass


def ob_same_qualname_types(first_b: bool, s: str, q: int) -> bool:
    """
    pre: len(s) <= 2
    post: _
    """
    docs = [(_MA, {"name": s}), (_MB, {"id": s, "qty": q})]
    if first_b:
        docs.reverse()
    for cls, doc in docs:
        obj = structure_from_dict(dict(doc), cls)
        if type(obj) is not cls or unstructure_to_dict(obj) != doc:
            return False
    return True


def tw_same_qualname_types(first_b: bool, s: str, q: int) -> bool:
    """
    pre: len(s) <= 2
    post: _
    """
    structure_from_dict({"name": s}, _MA)
    return False
