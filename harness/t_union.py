"""Template family U for C14 (union aliases emitted by the real generator from this document)."""


def spec():
    def obj(req, props):
        return {"type": "object", "required": req, "properties": props}

    st, it = {"type": "string"}, {"type": "integer"}
    S = {
        "Cat": obj(["kind", "name"], {"kind": st, "name": st, "lives": it}),
        "Dog": obj(["kind", "name"], {"kind": st, "name": st, "barkVolume": it}),
        "Pet": {"oneOf": [{"$ref": "#/components/schemas/Cat"}, {"$ref": "#/components/schemas/Dog"}],
                "discriminator": {"propertyName": "kind", "mapping": {"cat": "#/components/schemas/Cat", "dog": "#/components/schemas/Dog"}}},
        "CardPay": obj(["method", "pan"], {"method": st, "pan": st}),
        "BankPay": obj(["method", "iban"], {"method": st, "iban": st}),
        "Pay": {"oneOf": [{"$ref": "#/components/schemas/CardPay"}, {"$ref": "#/components/schemas/BankPay"}],
                "discriminator": {"propertyName": "method", "mapping": {"credit-card": "#/components/schemas/CardPay", "credit_card": "#/components/schemas/BankPay"}}},
        "Circle": obj(["r"], {"r": it, "label": st}),
        "Square": obj(["side"], {"side": it, "label": st}),
        "Shape": {"oneOf": [{"$ref": "#/components/schemas/Circle"}, {"$ref": "#/components/schemas/Square"}]},
        "Basic": obj(["id"], {"id": st, "note": st}),
        "Detailed": obj(["id", "extra"], {"id": st, "extra": it, "note": st}),
        "Overlap": {"oneOf": [{"$ref": "#/components/schemas/Basic"}, {"$ref": "#/components/schemas/Detailed"}]},
        "OverlapRev": {"oneOf": [{"$ref": "#/components/schemas/Detailed"}, {"$ref": "#/components/schemas/Basic"}]},
        # the same required-subset pair with wire names that differ from the python field names (camelCase, reserved word)
        "Summary": obj(["id"], {"id": st, "class": st}),
        "Full": obj(["id", "displayName"], {"id": st, "displayName": st, "isActive": {"type": "boolean"}, "class": st}),
        "Card": {"oneOf": [{"$ref": "#/components/schemas/Summary"}, {"$ref": "#/components/schemas/Full"}]},
        "CardRev": {"oneOf": [{"$ref": "#/components/schemas/Full"}, {"$ref": "#/components/schemas/Summary"}]},
        # variants whose schema names are not canonical class names (the mapping must still lead to their models)
        "cat_v": obj(["kind", "name"], {"kind": st, "name": st, "lives": it}),
        "Dog2": obj(["kind", "name"], {"kind": st, "name": st, "barkVolume": it}),
        "LegacyPet": {"oneOf": [{"$ref": "#/components/schemas/cat_v"}, {"$ref": "#/components/schemas/Dog2"}],
                      "discriminator": {"propertyName": "kind", "mapping": {"cat": "#/components/schemas/cat_v", "dog": "#/components/schemas/Dog2"}}},
        # several values per variant while the discriminator property is a plain string (the enum comes from the mapping alone)
        "Kit2": obj(["species", "name"], {"species": st, "name": st}),
        "Pup2": obj(["species", "name"], {"species": st, "name": st}),
        "Animal2": {"oneOf": [{"$ref": "#/components/schemas/Kit2"}, {"$ref": "#/components/schemas/Pup2"}],
                    "discriminator": {"propertyName": "species", "mapping": {"cat": "#/components/schemas/Kit2", "kitten": "#/components/schemas/Kit2", "dog": "#/components/schemas/Pup2"}}},
        # variants that do not declare the discriminator property themselves (only the union names it)
        "Round": obj(["r"], {"r": it, "label": st}),
        "Boxy": obj(["side"], {"side": it, "label": st}),
        "Shape2": {"oneOf": [{"$ref": "#/components/schemas/Round"}, {"$ref": "#/components/schemas/Boxy"}],
                   "discriminator": {"propertyName": "type", "mapping": {"round": "#/components/schemas/Round", "boxy": "#/components/schemas/Boxy"}}},
        "OptA": obj([], {"x": it}),
        "OptB": obj([], {"y": it}),
        "AllOpt": {"anyOf": [{"$ref": "#/components/schemas/OptA"}, {"$ref": "#/components/schemas/OptB"}]},
        "IntOrStr": {"oneOf": [it, st]},
        "StrOrBasic": {"oneOf": [st, {"$ref": "#/components/schemas/Basic"}]},
        "ListOrBasic": {"oneOf": [{"type": "array", "items": st}, {"$ref": "#/components/schemas/Basic"}]},
        "Holder": obj(["pet"], {"pet": {"$ref": "#/components/schemas/Pet"}, "shape": {"$ref": "#/components/schemas/Shape"},
                                "shapes": {"type": "array", "items": {"$ref": "#/components/schemas/Shape"}},
                                "maybePet": {"$ref": "#/components/schemas/NullablePet"}}),
        "NullablePet": {"oneOf": [{"$ref": "#/components/schemas/Cat"}, {"$ref": "#/components/schemas/Dog"}], "nullable": True,
                        "discriminator": {"propertyName": "kind", "mapping": {"cat": "#/components/schemas/Cat", "dog": "#/components/schemas/Dog"}}},
        # primitive unions in nullable / optional positions (rendered as Union[..., None])
        "Reading": obj(["code", "flag"], {"code": {"nullable": True, "oneOf": [it, st]}, "flag": {"nullable": True, "oneOf": [it, {"type": "boolean"}]},
                                          "opt": {"oneOf": [it, st]}}),
        # several discriminator values for one variant; the discriminator property is an enum of those values
        "Kit": obj(["species", "name"], {"species": {"type": "string", "enum": ["cat", "kitten"]}, "name": st}),
        "Pup": obj(["species", "name"], {"species": {"type": "string", "enum": ["dog"]}, "name": st}),
        "Animal": {"oneOf": [{"$ref": "#/components/schemas/Kit"}, {"$ref": "#/components/schemas/Pup"}],
                   "discriminator": {"propertyName": "species", "mapping": {"cat": "#/components/schemas/Kit", "kitten": "#/components/schemas/Kit", "dog": "#/components/schemas/Pup"}}},
        # mapping values given as bare schema names (allowed by OpenAPI) over same-shaped variants
        "BarePet": {"oneOf": [{"$ref": "#/components/schemas/Cat"}, {"$ref": "#/components/schemas/Dog"}],
                    "discriminator": {"propertyName": "kind", "mapping": {"cat": "Cat", "dog": "Dog"}}},
        "MixedPet": {"oneOf": [{"$ref": "#/components/schemas/Cat"}, {"$ref": "#/components/schemas/Dog"}],
                     "discriminator": {"propertyName": "kind", "mapping": {"cat": "#/components/schemas/Cat", "dog": "Dog"}}},
    }
    ok = {"description": "ok", "content": {"application/json": {"schema": {"$ref": "#/components/schemas/Holder"}}}}
    return {"openapi": "3.0.3", "info": {"title": "U", "version": "1"},
            "paths": {"/h": {"get": {"operationId": "getH", "responses": {"200": ok}}}}, "components": {"schemas": S}}
