"""C03 harness (CrossHair): JSON round-trip of models emitted by the real generator from harness/t_model.py.
The generated package (cl03, built by props/c03.py from the current /repo tree) is imported with its OWN core."""
from __future__ import annotations

import copy
import os
import sys

sys.path.insert(0, os.environ["VERIF_GEN_ROOT"])
from xh_support import prepare_cattrs  # noqa: E402

conv = prepare_cattrs("cl03.core.cattrs_converter")
S = conv.structure_from_dict
U = conv.unstructure_to_dict
from cl03.models import Account, Address, Employee, Loose, Mixed, Person, Stamps  # noqa: E402

STATUS = ["active", "in-active", "on hold"]
LEVEL = [1, 2, 3]
WHENS = ["2024-01-02T03:04:05", "2024-01-02T03:04:05+00:00", "1999-12-31T23:59:59.123456+02:00"]
DAYS = ["2024-02-29", "1970-01-01"]
UUIDS = ["123e4567-e89b-12d3-a456-426614174000", "00000000-0000-0000-0000-000000000000"]
BLOBS = ["", "AA==", "aGVsbG8=", "++++/v79/A=="]  # the last one uses both characters that differ between the base64 alphabets

TIMES = ["10:20:30", "23:59:59.500000", "00:00:00+02:00"]
_WARM = [
    (Loose, {"id": 1, "at": TIMES[0], "meta": {"a": {"b": 1}}, "payload": {"x": [1]}, "rows": [{"k": 1}], "note": {"n": 1}, "slots": ["a", None], "counts": [1, None], "state": "active", "rank": 2}),
    (Person, {"firstName": "a", "mood": None, "user_name_2": "u", "home-address": {"street": "s"}, "status": "active", "level": 1, "attrs": {"k": 1}, "addresses": [{"street": "t"}], "grid": [[{"cell-id": "g", "zip-code": "z"}]]}),
    (Stamps, {"created": WHENS[0], "born": DAYS[0], "avatar": BLOBS[1], "blob": BLOBS[2], "score": 1.5, "active": True}),
    (Employee, {"id": 1, "boss": "b", "office": {"street": "s"}}),
    (Account, {"user_id_2": "r", "userId": "a", "user_id": "b", "User-Id": 3}),
]
if int(os.environ.get("VERIF_WARM", "0") or 0) == 1:
    _WARM.reverse()
for _t, _d in _WARM:
    try:
        U(S(copy.deepcopy(_d), _t))
    except Exception:  # a warm-up failure is itself reported by the conditions below
        pass


def _norm(d):
    """tolerated difference: an absent optional may come back as null or as an empty container"""
    if isinstance(d, dict):
        return {k: _norm(v) for k, v in d.items() if v is not None and v != [] and v != {}}
    if isinstance(d, list):
        return [_norm(x) for x in d]
    return d


def _rt(doc, cls):
    return _norm(U(S(copy.deepcopy(doc), cls))) == _norm(doc)


def ob_person_scalars_a(fn: str, has_ln: bool, ln: str, has_class: bool, cl: str) -> bool:
    """
    pre: len(fn) <= 2 and len(ln) <= 1 and len(cl) <= 1
    post: _
    """
    doc = {"firstName": fn, "mood": "ok"}
    if has_ln:
        doc["last_name"] = ln
    if has_class:
        doc["class"] = cl
    return _rt(doc, Person)


def tw_person_scalars_a(fn: str, has_ln: bool, ln: str, has_class: bool, cl: str) -> bool:
    """
    pre: len(fn) <= 2 and len(ln) <= 1 and len(cl) <= 1
    post: _
    """
    U(S({"firstName": fn, "mood": "ok"}, Person))
    return False


def ob_person_scalars_b(fn: str, has_from: bool, fr: int, has_nick: bool, nick_null: bool) -> bool:
    """
    pre: len(fn) <= 1
    post: _
    """
    doc = {"firstName": fn, "mood": "ok"}
    if has_from:
        doc["from"] = fr
    if has_nick:
        doc["nickname"] = None if nick_null else fn
    return _rt(doc, Person)


def tw_person_scalars_b(fn: str, has_from: bool, fr: int, has_nick: bool, nick_null: bool) -> bool:
    """
    pre: len(fn) <= 1
    post: _
    """
    U(S({"firstName": fn, "mood": "ok", "from": fr}, Person))
    return False


def ob_person_colliding_keys(fn: str, has_a: bool, a: str, has_b: bool, b: str, has_c: bool) -> bool:
    """
    pre: len(fn) <= 1 and len(a) <= 2 and len(b) <= 2
    post: _
    """
    doc = {"firstName": fn, "mood": "ok"}
    if has_a:
        doc["userName"] = a
    if has_b:
        doc["user_name"] = b
    if has_c:
        doc["user_name_2"] = a + b  # a third key whose own name looks like the de-collision suffix of the second
    back = U(S(dict(doc), Person))
    return _norm(back) == _norm(doc)


def tw_person_colliding_keys(fn: str, has_a: bool, a: str, has_b: bool, b: str, has_c: bool) -> bool:
    """
    pre: len(fn) <= 1 and len(a) <= 2 and len(b) <= 2
    post: _
    """
    U(S({"firstName": fn, "mood": "ok", "userName": a}, Person))
    return False


def ob_account_suffix_first(r: str, has_a: bool, a: str, has_b: bool, b: str, has_c: bool, c: int) -> bool:
    """
    pre: len(r) <= 1 and len(a) <= 1 and len(b) <= 1
    post: _
    """
    doc = {"user_id_2": r}
    if has_a:
        doc["userId"] = a
    if has_b:
        doc["user_id"] = b
    if has_c:
        doc["User-Id"] = c
    return _rt(doc, Account)


def tw_account_suffix_first(r: str, has_a: bool, a: str, has_b: bool, b: str, has_c: bool, c: int) -> bool:
    """
    pre: len(r) <= 1 and len(a) <= 1 and len(b) <= 1
    post: _
    """
    U(S({"user_id_2": r, "userId": a}, Account))
    return False


def ob_person_nested_a(fn: str, has_home: bool, street: str, has_zip: bool, n_addr: int) -> bool:
    """
    pre: len(fn) <= 1 and len(street) <= 1 and 0 <= n_addr <= 2
    post: _
    """
    doc = {"firstName": fn, "mood": "ok"}
    if has_home:
        doc["home-address"] = {"street": street}
        if has_zip:
            doc["home-address"]["zip-code"] = fn
    if n_addr:
        doc["addresses"] = [{"street": street, "zip-code": fn} for _ in range(n_addr)]
    return _rt(doc, Person)


def tw_person_nested_a(fn: str, has_home: bool, street: str, has_zip: bool, n_addr: int) -> bool:
    """
    pre: len(fn) <= 1 and len(street) <= 1 and 0 <= n_addr <= 2
    post: _
    """
    U(S({"firstName": fn, "mood": "ok", "home-address": {"street": street}}, Person))
    return False


def ob_person_grid(fn: str, rows: int, street: str, has_zip: bool) -> bool:
    """
    pre: len(fn) <= 1 and len(street) <= 1 and 0 <= rows <= 2
    post: _
    """
    doc = {"firstName": fn, "mood": "ok"}
    cell = {"cell-id": street}
    if has_zip:
        cell["zip-code"] = fn
    if rows:
        doc["grid"] = [[dict(cell)] if r == 0 else [dict(cell), dict(cell)] for r in range(rows)]
    return _rt(doc, Person)


def tw_person_grid(fn: str, rows: int, street: str, has_zip: bool) -> bool:
    """
    pre: len(fn) <= 1 and len(street) <= 1 and 0 <= rows <= 2
    post: _
    """
    U(S({"firstName": fn, "mood": "ok", "grid": [[{"cell-id": street}]]}, Person))
    return False


def ob_person_nested_b(fn: str, n_tags: int, has_attrs: bool, av: int) -> bool:
    """
    pre: len(fn) <= 1 and 0 <= n_tags <= 2
    post: _
    """
    doc = {"firstName": fn, "mood": "ok"}
    if n_tags:
        doc["tags"] = [fn for _ in range(n_tags)]
    if has_attrs:
        doc["attrs"] = {"k": av, "other-key": av + 1}
    return _rt(doc, Person)


def tw_person_nested_b(fn: str, n_tags: int, has_attrs: bool, av: int) -> bool:
    """
    pre: len(fn) <= 1 and 0 <= n_tags <= 2
    post: _
    """
    U(S({"firstName": fn, "mood": "ok", "attrs": {"k": av}}, Person))
    return False


def ob_person_enums(fn: str, has_status: bool, si: int, has_level: bool, li: int) -> bool:
    """
    pre: len(fn) <= 1 and 0 <= si < 3 and 0 <= li < 3
    post: _
    """
    doc = {"firstName": fn, "mood": "ok"}
    if has_status:
        doc["status"] = STATUS[si]
    if has_level:
        doc["level"] = LEVEL[li]
    return _rt(doc, Person)


def tw_person_enums(fn: str, has_status: bool, si: int, has_level: bool, li: int) -> bool:
    """
    pre: len(fn) <= 1 and 0 <= si < 3 and 0 <= li < 3
    post: _
    """
    U(S({"firstName": fn, "mood": "ok", "status": STATUS[si]}, Person))
    return False


def ob_stamps_formats(w: int, has_born: bool, d: int, has_uid: bool, u: int, has_avatar: bool, b: int, has_active: bool, active: bool) -> bool:
    """
    pre: 0 <= w < 3 and 0 <= d < 2 and 0 <= u < 2 and 0 <= b < 4
    post: _
    """
    import datetime as dt

    doc = {"created": WHENS[w]}
    if has_born:
        doc["born"] = DAYS[d]
    if has_uid:
        doc["uid"] = UUIDS[u]
    if has_avatar:
        doc["avatar"] = BLOBS[b]
        doc["blob"] = BLOBS[b]
    if has_active:
        doc["active"] = active
    back = dict(_norm(U(S(dict(doc), Stamps))))
    want = dict(_norm(doc))
    # a date-time may re-render in an equivalent ISO form: compare as instants
    if dt.datetime.fromisoformat(back.pop("created")) != dt.datetime.fromisoformat(want.pop("created")):
        return False
    return back == want


def tw_stamps_formats(w: int, has_born: bool, d: int, has_uid: bool, u: int, has_avatar: bool, b: int, has_active: bool, active: bool) -> bool:
    """
    pre: 0 <= w < 3 and 0 <= d < 2 and 0 <= u < 2 and 0 <= b < 4
    post: _
    """
    U(S({"created": WHENS[w]}, Stamps))
    return False


def ob_loose_time(i: int, t: int) -> bool:
    """
    pre: 0 <= t <= 2
    post: _
    """
    import datetime as dt

    back = _norm(U(S({"id": i, "at": TIMES[t]}, Loose)))
    return back.get("id") == i and isinstance(back.get("at"), str) and dt.time.fromisoformat(back["at"]) == dt.time.fromisoformat(TIMES[t])


def tw_loose_time(i: int, t: int) -> bool:
    """
    pre: 0 <= t <= 2
    post: _
    """
    U(S({"id": i, "at": TIMES[t]}, Loose))
    return False


def ob_loose_nullable_items(ints: bool, n: int, s: str, i: int, hole: int) -> bool:
    """
    pre: 1 <= n <= 3 and len(s) <= 2 and 0 <= hole <= 3
    post: _
    """
    # `items: {nullable: true}`: a null element stays a null element (it is not coerced into the item type)
    vals = [((i + k) if ints else (s + "x" * k)) for k in range(n)]
    if hole < n:
        vals[hole] = None
    doc = {"id": 1, ("counts" if ints else "slots"): vals}
    back = U(S(copy.deepcopy(doc), Loose))
    return back.get("counts" if ints else "slots") == vals


def tw_loose_nullable_items(ints: bool, n: int, s: str, i: int, hole: int) -> bool:
    """
    pre: 1 <= n <= 3 and len(s) <= 2 and 0 <= hole <= 3
    post: _
    """
    U(S({"id": 1, "slots": [s, None]}, Loose))
    return False


def ob_loose_wrapped_refs(has_state: bool, null_state: bool, si: int, has_rank: bool, li: int) -> bool:
    """
    pre: 0 <= si < 3 and 0 <= li < 3
    post: _
    """
    doc = {"id": 1}
    if has_state:
        doc["state"] = None if null_state else STATUS[si]
    if has_rank:
        doc["rank"] = LEVEL[li]
    else:
        doc["marks"] = [STATUS[si], None] if null_state else [STATUS[si], STATUS[li]]  # the wrapper as array items
    back = U(S(copy.deepcopy(doc), Loose))
    return _norm(back) == _norm(doc) and back.get("marks", None) in (doc.get("marks"), None, [])


def tw_loose_wrapped_refs(has_state: bool, null_state: bool, si: int, has_rank: bool, li: int) -> bool:
    """
    pre: 0 <= si < 3 and 0 <= li < 3
    post: _
    """
    U(S({"id": 1, "state": STATUS[si]}, Loose))
    return False


def ob_loose_freeform(which: int, v: int, s: str, n: int) -> bool:
    """
    pre: 0 <= which <= 3 and len(s) <= 2 and 1 <= n <= 2
    post: _
    """
    # an object whose schema declares no properties is a FREE-FORM object: its keys are data, not noise
    doc = {"id": 1}
    if which == 0:
        doc["meta"] = {"a": v, "b": {"c": s}}
    elif which == 1:
        doc["payload"] = {"x": [v], "y": s}
    elif which == 2:
        doc["rows"] = [{"k": v + j, "s": s} for j in range(n)]
    else:
        doc["note"] = {"n": v}
    return U(S(copy.deepcopy(doc), Loose)) is not None and _norm(U(S(copy.deepcopy(doc), Loose))) == _norm(doc)


def tw_loose_freeform(which: int, v: int, s: str, n: int) -> bool:
    """
    pre: 0 <= which <= 3 and len(s) <= 2 and 1 <= n <= 2
    post: _
    """
    U(S({"id": 1, "meta": {"a": v}}, Loose))
    return False


def kf_loose_any_value(which: int, v: int, s: str) -> bool:
    """
    pre: 0 <= which <= 3 and len(s) <= 1
    post: _
    """
    # a schema that says nothing (`{}` or only a description) admits ANY JSON value, not only objects
    val = [v, s, [v], True][which]
    doc = {"id": 1, "payload": val}
    return _norm(U(S(copy.deepcopy(doc), Loose))) == _norm(doc)


def kf_mixed_extra_keys(i: int, has_extra: bool, v: int) -> bool:
    """
    pre: True
    post: _
    """
    doc = {"id": i}
    if has_extra:
        doc["extra"] = v
    return _norm(U(S(dict(doc), Mixed))) == _norm(doc)


# kf_* conditions probe listed known findings (see /verif/known_findings.json): label of the finding each one witnesses
KNOWN = {"kf_loose_any_value": lambda which, v, s: "any-schema-admits-only-objects",
         "kf_mixed_extra_keys": lambda i, has_extra, v: "declared-properties-plus-additional-properties-drop-extras"}


def ob_employee_allof(i: int, has_kind: bool, k: str, boss: str, has_office: bool, street: str) -> bool:
    """
    pre: len(k) <= 1 and len(boss) <= 2 and len(street) <= 1
    post: _
    """
    doc = {"id": i, "boss": boss}
    if has_kind:
        doc["kind"] = k
    if has_office:
        doc["office"] = {"street": street}
    return _rt(doc, Employee)


def tw_employee_allof(i: int, has_kind: bool, k: str, boss: str, has_office: bool, street: str) -> bool:
    """
    pre: len(k) <= 1 and len(boss) <= 2 and len(street) <= 1
    post: _
    """
    U(S({"id": i, "boss": boss}, Employee))
    return False


def ob_person_required_nullable_enum(fn: str, m: int) -> bool:
    """
    pre: len(fn) <= 2 and 0 <= m <= 2
    post: _
    """
    doc = {"firstName": fn, "mood": ["ok", "bad", None][m]}
    back = U(S(dict(doc), Person))
    return back.get("firstName") == fn and back.get("mood") == doc["mood"]


def tw_person_required_nullable_enum(fn: str, m: int) -> bool:
    """
    pre: len(fn) <= 2 and 0 <= m <= 2
    post: _
    """
    U(S({"firstName": fn, "mood": "ok"}, Person))
    return False


def ob_stamps_datetime_map(w: int, n: int, k: int) -> bool:
    """
    pre: 0 <= w < 3 and 0 <= n <= 2 and 0 <= k < 3
    post: _
    """
    import datetime as dt

    doc = {"created": WHENS[w]}
    if n:
        doc["runs"] = {"first": WHENS[k], "second": WHENS[(k + 1) % 3]} if n == 2 else {"first": WHENS[k]}
    back = U(S(copy.deepcopy(doc), Stamps))
    runs = back.get("runs") or {}
    if set(runs) != set(doc.get("runs", {})):
        return False
    return all(isinstance(v, str) and dt.datetime.fromisoformat(v) == dt.datetime.fromisoformat(doc["runs"][key]) for key, v in runs.items())


def tw_stamps_datetime_map(w: int, n: int, k: int) -> bool:
    """
    pre: 0 <= w < 3 and 0 <= n <= 2 and 0 <= k < 3
    post: _
    """
    U(S({"created": WHENS[w], "runs": {"first": WHENS[k]}}, Stamps))
    return False
