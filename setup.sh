#!/bin/sh
# Builds /verif/.venv: an overlay on /venv (repo + deps) with crosshair-tool and z3 from the offline wheelhouse.
set -e
cd "$(dirname "$0")"
if [ ! -x .venv/bin/python ] || ! .venv/bin/python -c "import z3, crosshair" 2>/dev/null; then
  rm -rf .venv
  /venv/bin/python -m venv .venv
  SP=$(.venv/bin/python -c "import sysconfig; print(sysconfig.get_paths()['purelib'])")
  echo "import site; site.addsitedir('/venv/lib/python3.12/site-packages')" > "$SP/_overlay.pth"
  PIP_NO_INDEX=1 .venv/bin/pip install -q --no-index --find-links /opt/veriftools/wheels crosshair-tool
fi
.venv/bin/python -c "import z3, crosshair, pyopenapi_gen, httpx, cattrs; print('verif venv ok: z3', z3.get_version_string())"
