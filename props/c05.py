"""C05 — Response fidelity: declared success bodies come back as typed values (engine E2 / CrossHair on generated code).

Endpoint methods are emitted this run by the real generator from harness/t_resp.py (200 model, list of model, alias to
list, int and string primitives, 201 only, 200+201 with different models, 202, 204, 200+204, text/plain, octet-stream
(streamed), two content types on one response, default with content, union body); harness/h_c05.py drives them against a
stub transport returning a conforming body built from symbolic leaves and states: the call returns a value of the right
type whose re-serialisation equals the body; no-content returns None; text returns the text; the byte stream yields the
chunks in order."""
from __future__ import annotations

import json
import os
import subprocess
import sys

import gen
import xh
from common import VERIF
from props.c16 import run_harness

HARNESS = os.path.join(VERIF, "harness", "h_c05.py")
FUNCS = ["pyopenapi_gen.visit.endpoint.generators.response_handler_generator:EndpointResponseHandlerGenerator.generate_response_handling", "pyopenapi_gen.types.strategies.response_strategy:ResponseStrategyResolver.resolve", "pyopenapi_gen.core.streaming_helpers:iter_bytes", "pyopenapi_gen.core.cattrs_converter:structure_from_dict", "pyopenapi_gen.core.cattrs_converter:unstructure_to_dict",
         "pyopenapi_gen.visit.model.dataclass_generator:DataclassGenerator.generate", "pyopenapi_gen.core.writers.python_construct_renderer:PythonConstructRenderer.render_dataclass",
         "pyopenapi_gen.types.resolvers.schema_resolver:OpenAPISchemaResolver._resolve_string", "pyopenapi_gen.visit.model.enum_generator:EnumGenerator.generate"]


def prepare():
    sys.path.insert(0, VERIF)
    from harness.t_resp import spec

    root = gen.workdir("c05", fresh=True)
    files, err = gen.generate(spec(), root, "cl05")
    return root, err


def run(tier, rep, only=None):
    root, err = prepare()
    rep.bounds = {"operations": "15 response shapes of T_resp", "content_type_header": "pool of 3 spellings per media type (case / parameters)",
                  "leaves": "str length <=2, unbounded int, bool, presence of every optional property symbolic, list lengths <=2; format/enum leaves by symbolic index into exemplars",
                  "warm_up_histories": [0, 1]}
    rep.stubs = ["cattrs.gen.eval -> untraced eval", "converter's per-call code generation memoised per class"]
    rep.assumptions = ["tolerated difference: absent optional may reappear as null or empty container", "schemas outside the template family are outside the claim"]
    rep.note_functions(FUNCS)
    if err:
        rep.violations.append({"obligation": "generate(cl05)", "inputs": {"spec": "T_resp"}, "detail": "generation failed: " + err})
        return
    p = subprocess.run([sys.executable, "-c", "import cl05.models, cl05.endpoints.default, cl05.core.cattrs_converter"], cwd=root, capture_output=True, text=True,
                       env=dict(os.environ, PYTHONPATH=root))
    if p.returncode != 0:
        rep.violations.append({"obligation": "import(cl05.models)", "inputs": {"spec": "T_resp"}, "detail": "generated models do not import: " + (p.stderr.strip().splitlines() or ["?"])[-1][:300]})
        return
    run_harness(rep, HARNESS, tier, [0, 1], only, env_extra={"VERIF_GEN_ROOT": root})
    # "Streaming responses yield, in order, exactly the events the server sent": the event-stream / NDJSON helpers the
    # generated streaming methods delegate to, against the reference event lists of props/c18.py (symx; json.loads is C
    # code, so this half cannot run under CrossHair)
    from props import c18
    from symx import explore

    sp = [s for s in c18.specs(tier) if s[1] in ("mk_ref", "mk_ndref")]
    if only:
        sp = [s for s in sp if only in explore.build(s).name]
    if sp:
        res = explore.run_all(sp, split=32, slice_s=3.0, log=lambda m: print("[c05/streams]", m, flush=True))
        for spec in sp:
            ob = explore.build(spec)
            rep.add_symx(res[ob.name], functions=ob.functions, bounds=ob.bounds)
        rep.stubs.append("stream helpers: httpx.Response -> stub over the real (instrumented) httpx LineDecoder; json.loads -> identity marker (as in C18)")


def replay(path):
    v = json.load(open(path))["violation"]
    root, err = prepare()
    os.environ["VERIF_GEN_ROOT"] = root
    name = v["obligation"].split(":")[1].split("/")[0]
    os.environ["VERIF_WARM"] = v["obligation"].split("warm=")[-1]
    mod = xh.load_harness(HARNESS)
    rep, detail, _ = xh.replay_native(mod, name, v["inputs"])
    print("replay %s(%s) -> reproduced=%s %s" % (name, v["inputs"], rep, detail))
    return 1 if rep else 0
