"""C13, signature half — client class, Protocol and mock expose the same methods with the same signatures (symx + pylex).

Kernel: the REAL EndpointsEmitter.emit (which renders every operation with EndpointVisitor / EndpointMethodGenerator and
derives the Protocol by re-reading the rendered text) and the REAL MocksEmitter.emit (which renders every operation again
with its own EndpointVisitor and rewrites the text into a mock), on operations whose shape is solver-chosen:
  * parameter name and operationId are symbolic strings (they pass through sanitize_method_name at every site),
  * `required` of the parameter is a symbolic boolean, its location and type, the request-body kind (none, JSON model,
    JSON array, form, multipart, octet-stream, two content types -> @overload), the primary response kind (JSON model,
    JSON list, 204, text, byte stream, SSE stream) and a secondary response (none, declared error, stream-flagged 206)
    are finite choices decided by the solver (`choose`),
  * in the two-operation obligations two operations of one tag get independent body / response kinds (state carried
    from one operation to the next inside a generator shows up here).
The two emitted files (symbolic text) are lexed with the reference lexer and read into class / method views (lib/pysig).
P: the Protocol, the client and the mock list the same methods (name, decorators) in the same order; for each method the
parameter tokens and the return-annotation tokens are equal on all three (z3 decides the character equalities); the mock
method is an async generator exactly when the client method is, a coroutine exactly when it is; the Protocol stub of a
coroutine is `async def`, that of an async generator is a plain `def` returning the iterator (the generator's own
convention: calling it gives the iterator directly) or an `async def` that yields; every non-overload mock method's
first statement raises NotImplementedError; every @overload is a `...` stub on all three.
"""
from __future__ import annotations

import json
from importlib import import_module

import pysig
from props import c07
from symx import explore, hook
from symx.core import SymBool, is_sym, mk_sym_bool, mk_sym_str, ranges_of_pts, s_and
from symx.explore import Obligation, Raised, call_catching

hook.install()
MOD = "props.c13sig"
NAME_ALPHA = ranges_of_pts([ord(c) for c in "aisnfI-_1"])

BODIES = ["none", "json_a", "json_b", "json_list", "form", "multipart", "octet", "multi_a", "multi_b", "multi_form"]
RESPS = ["json_a", "json_list", "none204", "text", "bytes_stream", "sse", "primitive", "ndjson", "json_seq", "json_iterpage", "json_protocol"]
# schemas named like something every endpoints module binds itself (typing constructs, runtime classes)
NAMED_LIKE = {"json_iterpage": "AsyncIteratorPage", "json_protocol": "Protocol"}
SECOND = ["none", "err404", "stream206", "default_stream"]
PTYPES = ["string", "integer", "array", "enum_ref", "date"]
PLOCS = ["query", "header", "cookie"]


def _I():
    return c07._I()


def _R():
    return c07._R()


def _patch(P):
    u = import_module(P.__name__ + ".core.utils")
    u.Formatter.format = lambda self, code: code
    return P


def _schemas(P):
    S = P.IRSchema
    a = S(name="Author", type="object", properties={"n": S(type="string")}, required=["n"])
    b = S(name="Book", type="object", properties={"t": S(type="string")}, required=["t"])
    c = S(name="Color", type="string", enum=["red", "green"])
    for s in (a, b, c):
        s.generation_name = s.name
        s.final_module_stem = s.name.lower()
    return a, b, c


def _body(P, kind, a, b):
    S = P.IRSchema
    if kind == "none":
        return None
    form = S(type="object", properties={"x": S(type="string")})
    files = S(type="object", properties={"f": S(type="string", format="binary")})
    content = {
        "json_a": {"application/json": a},
        "json_b": {"application/json": b},
        "json_list": {"application/json": S(type="array", items=b)},
        "form": {"application/x-www-form-urlencoded": form},
        "multipart": {"multipart/form-data": files},
        "octet": {"application/octet-stream": S(type="string", format="binary")},
        "multi_a": {"application/json": a, "multipart/form-data": files},
        "multi_b": {"application/json": b, "multipart/form-data": files},
        "multi_form": {"application/json": S(type="array", items=a), "application/x-www-form-urlencoded": form},
    }[kind]
    return P.IRRequestBody(required=True, content=content)


def _named(P, raw):
    """a plain model whose schema NAME is `raw`; class name and module stem as the real sanitisers derive them"""
    d = P.IRSchema(name=raw, type="object", properties={"n": P.IRSchema(type="integer")}, required=["n"])
    d.generation_name = P.core.utils.NameSanitizer.sanitize_class_name(raw)
    d.final_module_stem = P.core.utils.NameSanitizer.sanitize_module_name(raw)
    return d


def _page(P):
    return _named(P, "AsyncIteratorPage")


def _responses(P, kind, second, a, b, page=None, proto=None):
    S = P.IRSchema
    R = P.IRResponse
    prim = {
        "json_iterpage": R(status_code="200", description="ok", content={"application/json": page if page is not None else a}),
        "json_protocol": R(status_code="200", description="ok", content={"application/json": proto if proto is not None else a}),
        "json_a": R(status_code="200", description="ok", content={"application/json": a}),
        "json_list": R(status_code="200", description="ok", content={"application/json": S(type="array", items=b)}),
        "none204": R(status_code="204", description="gone", content={}),
        "text": R(status_code="200", description="ok", content={"text/plain": S(type="string")}),
        "bytes_stream": R(status_code="200", description="ok", content={"application/octet-stream": S(type="string", format="binary")}, stream=True,
                          stream_format="octet-stream"),
        "sse": R(status_code="200", description="ok", content={"text/event-stream": S(type="string")}, stream=True, stream_format="event-stream"),
        "ndjson": R(status_code="200", description="ok", content={"application/x-ndjson": a}, stream=True, stream_format="ndjson"),
        "json_seq": R(status_code="200", description="ok", content={"application/json-seq": S(type="object", additional_properties=True)}, stream=True, stream_format="json-seq"),
        "primitive": R(status_code="201", description="ok", content={"application/json": S(type="integer")}),
    }[kind]
    out = [prim]
    if second == "err404":
        out.append(R(status_code="404", description="no", content={"application/json": b}))
    elif second == "stream206":
        out.append(R(status_code="206", description="part", content={"application/octet-stream": S(type="string", format="binary")}, stream=True,
                     stream_format="octet-stream"))
    elif second == "default_stream":
        out.append(R(status_code="default", description="err", content={"application/octet-stream": S(type="string", format="binary")}, stream=True,
                     stream_format="octet-stream"))
    return out


def _param(P, name, loc, required, ptype, color):
    S = P.IRSchema
    sch = {"string": lambda: S(type="string"), "integer": lambda: S(type="integer"), "array": lambda: S(type="array", items=S(type="string")),
           "enum_ref": lambda: color, "date": lambda: S(type="string", format="date-time")}[ptype]()
    return P.IRParameter(name=name, param_in=loc, required=required, schema=sch)


def k_emit(P, opspecs):
    """opspecs: list of dict(opid, params=[(name, loc, required, ptype)], body, resp, second) -> (endpoint file text, mock file text)"""
    _patch(P)
    inst = P.__name__.startswith("sxi_")
    ee = import_module(P.__name__ + ".emitters.endpoints_emitter")
    me = import_module(P.__name__ + ".emitters.mocks_emitter")
    rc = import_module(P.__name__ + ".context.render_context")
    a, b, color = _schemas(P)
    schemas = hook.SDict() if inst else {}
    page = _page(P)
    for s in (a, b, color, page):
        schemas[s.name] = s
    proto = _named(P, "Protocol") if any(sp["resp"] == "json_protocol" for sp in opspecs) else None
    if proto is not None:
        schemas[proto.name] = proto
    ops = []
    for i, sp in enumerate(opspecs):
        params = [P.IRParameter(name="id", param_in="path", required=True, schema=P.IRSchema(type="string"))]
        for (name, loc, req, ptype) in sp.get("params", []):
            params.append(_param(P, name, loc, req, ptype, color))
        body = _body(P, sp["body"], a, b)
        ops.append(P.IROperation(operation_id=sp["opid"], method=P.HTTPMethod.POST if body else P.HTTPMethod.GET, path=("/things/{id}/%d" % i) + ("/{vid}" if sp.get("implicit") else ""),  # `vid`: a path variable that no parameter declares
                                 summary="Do it", description="Longer text.", parameters=params, request_body=body,
                                 responses=_responses(P, sp["resp"], sp["second"], a, b, page, proto), tags=["things"]))

    def ctx():
        c = rc.RenderContext(core_package_name="core", package_root_for_generated_code="/tmp/x/pkg", overall_project_root="/tmp/x", parsed_schemas=schemas)
        c.file_manager = c07._FM()
        return c

    c1 = ctx()
    em = ee.EndpointsEmitter(c1)
    saved = ee.Path
    ee.Path = lambda s: c07._FakePath(s)
    try:
        em.emit(ops, "/tmp/x/pkg")
    finally:
        ee.Path = saved
    ep = [c for p, c in c1.file_manager.writes if str(p).endswith("endpoints/things.py")]
    c2 = ctx()
    mk = me.MocksEmitter(c2)

    class _CV:
        def generate_client_mock_class(self, spec, ctx, tag_tuples):
            return "MC"

    mk.client_visitor = _CV()
    from props.c13 import _MockPath

    saved = me.Path
    me.Path = lambda s: _MockPath(s)
    try:
        mk.emit(P.IRSpec(title="t", version="1", schemas=schemas, operations=ops, servers=[]), "/tmp/x/pkg")
    finally:
        me.Path = saved
    mo = [c for p, c in c2.file_manager.writes if str(p).endswith("mocks/endpoints/mock_things.py")]
    if len(ep) != 1 or len(mo) != 1:
        return ("WRITES", len(ep), len(mo))
    return (ep[0], mo[0])


def _both(x, y):
    if x is False or y is False:
        return False
    if x is True:
        return y
    if y is True:
        return x
    return s_and(x, y)


def parity(ep_text, mock_text):
    """-> (condition (bool / SymBool), explanation when it is plainly False)"""
    ce, err = pysig.classes(ep_text)
    if ce is None:
        return False, "endpoint file: " + err
    cm, err = pysig.classes(mock_text)
    if cm is None:
        return False, "mock file: " + err
    proto, client, mock = ce.get("ThingsClientProtocol"), ce.get("ThingsClient"), cm.get("MockThingsClient")
    if proto is None or client is None or mock is None:
        return False, "classes found: %r / %r" % (sorted(ce), sorted(cm))
    cms = [m for m in client.methods if pysig.show(m.name) != "__init__"]
    if not (len(proto.methods) == len(cms) == len(mock.methods)):
        return False, "method counts differ: protocol %d client %d mock %d" % (len(proto.methods), len(cms), len(mock.methods))
    cond = True
    for p, c, m in zip(proto.methods, cms, mock.methods):
        for other, label in ((p, "protocol"), (m, "mock")):
            eq = pysig.chars_eq(c.name, other.name)
            eq = _both(eq, len(c.decorators) == len(other.decorators) and all(pysig.tok_eq(x, y) is not False for x, y in zip(c.decorators, other.decorators)))
            eq = _both(eq, pysig.tok_eq(c.params, other.params))
            eq = _both(eq, pysig.tok_eq(c.returns, other.returns))
            if eq is False:
                return False, "%s differs from client: %r vs %r" % (label, other, c)
            cond = _both(cond, eq)
        overload = any(pysig.show(t.text) == "overload" for d in c.decorators for t in d)
        if overload:
            if not (c.is_stub and p.is_stub and m.is_stub and c.is_async == p.is_async == m.is_async):
                return False, "overload stubs differ in nature: %r / %r / %r" % (p, c, m)
            continue
        if not c.is_async:
            return False, "client method is not async: %r" % (c,)
        gen = c.has_yield
        if m.is_async is not True or m.has_yield != gen:
            return False, "mock nature differs (client %s): %r" % ("async generator" if gen else "coroutine", m)
        if not m.raises_not_implemented:
            return False, "mock method does not start by raising NotImplementedError: %r" % (m,)
        if not p.is_stub:
            return False, "protocol method is not a stub: %r" % (p,)
        if gen:
            if p.is_async and not p.has_yield:
                return False, "protocol declares a coroutine for an async generator: %r" % (p,)
        elif not p.is_async:
            return False, "protocol declares a plain function for a coroutine: %r" % (p,)
    return cond, None


class SigParity(Obligation):
    functions = ["pyopenapi_gen.emitters.endpoints_emitter:EndpointsEmitter.emit", "pyopenapi_gen.emitters.mocks_emitter:MocksEmitter.emit",
                 "pyopenapi_gen.visit.endpoint.endpoint_visitor:EndpointVisitor.generate_endpoint_protocol",
                 "pyopenapi_gen.visit.endpoint.endpoint_visitor:EndpointVisitor.generate_endpoint_mock_class",
                 "pyopenapi_gen.visit.endpoint.generators.mock_generator:MockGenerator._transform_to_mock",
                 "pyopenapi_gen.visit.endpoint.generators.endpoint_method_generator:EndpointMethodGenerator.generate",
                 "pyopenapi_gen.visit.endpoint.generators.signature_generator:EndpointMethodSignatureGenerator.generate_signature",
                 "pyopenapi_gen.visit.endpoint.generators.overload_generator:OverloadMethodGenerator.generate_implementation_signature",
                 "pyopenapi_gen.core.utils:NameSanitizer.sanitize_method_name"]
    alphabet = NAME_ALPHA
    timeout_ms = 30000

    def __init__(self, mode, nlen, olen, bodies, resps, seconds):
        """mode 'one': one operation, one symbolic parameter (+ fixed path parameter), symbolic operationId;
        mode 'two': two operations with concrete ids, independent body/response kinds, no extra parameters."""
        self.mode, self.nlen, self.olen = mode, nlen, olen
        self.bodies, self.resps, self.seconds = list(bodies), list(resps), list(seconds)
        self.name = "sig/%s/n=%d/o=%d/b=%s/r=%s/s=%s" % (mode, nlen, olen, "+".join(self.bodies), "+".join(self.resps), "+".join(self.seconds))
        self.bounds = {"mode": mode, "param_name_len": nlen, "operation_id_len": olen, "bodies": self.bodies, "responses": self.resps,
                       "secondary": self.seconds, "alphabet": "aisnfI-_1"}

    def make_inputs(self, e):
        inp = {}
        if self.mode == "one":
            inp["body"] = self.bodies[e.choose(len(self.bodies), "body")]
            inp["resp"] = self.resps[e.choose(len(self.resps), "resp")]
            inp["second"] = self.seconds[e.choose(len(self.seconds), "second")]
            if self.nlen:
                inp["pname"] = mk_sym_str(self.nlen, "pname", NAME_ALPHA)
                inp["ploc"] = PLOCS[e.choose(len(PLOCS), "ploc")]
                inp["ptype"] = PTYPES[e.choose(len(PTYPES), "ptype")]
                inp["preq"] = mk_sym_bool("preq")
            inp["opid"] = mk_sym_str(self.olen, "opid", NAME_ALPHA) if self.olen else "get_thing"
        else:
            for k in (1, 2):
                inp["body%d" % k] = self.bodies[e.choose(len(self.bodies), "body%d" % k)]
                inp["resp%d" % k] = self.resps[e.choose(len(self.resps), "resp%d" % k)]
                inp["second%d" % k] = self.seconds[e.choose(len(self.seconds), "second%d" % k)]
        return inp

    def _opspecs(self, inp):
        if self.mode == "one":
            params = [(inp["pname"], inp["ploc"], inp["preq"], inp["ptype"])] if self.nlen else []
            return [dict(opid=inp["opid"], params=params, body=inp["body"], resp=inp["resp"], second=inp["second"])]
        return [dict(opid="first_op", params=[], body=inp["body1"], resp=inp["resp1"], second=inp["second1"]),
                dict(opid="second_op", params=[], body=inp["body2"], resp=inp["resp2"], second=inp["second2"])]

    def run_sym(self, inp):
        return call_catching(k_emit, _I(), self._opspecs(inp))

    def run_real(self, inp):
        return call_catching(k_emit, _R(), self._opspecs(inp))

    def normalise(self, r):
        if isinstance(r, tuple):
            return tuple(c07._simp(x) for x in r)
        return r

    def prop(self, inp, r):
        if isinstance(r, Raised):
            return True  # generation failed visibly
        if r[0] == "WRITES":
            return False
        cond, _why = parity(r[0], r[1])
        return cond

    def describe_violation(self, inp, r):
        if isinstance(r, tuple) and r[0] != "WRITES":
            cond, why = parity(r[0], r[1])
            return "operation shape %r: %s" % ({k: v for k, v in inp.items()}, why or "signature tokens differ")
        return "files written: %r" % (r,)


def mk(mode, nlen, olen, bodies, resps, seconds):
    return SigParity(mode, nlen, olen, bodies, resps, seconds)


def specs(tier):
    q = tier == "quick"
    out = []
    # (a) every body kind x response kind x secondary response, concrete names
    for b in BODIES:
        out.append((MOD, "mk", ("one", 0, 0, (b,), tuple(RESPS), tuple(SECOND))))
    # (b) symbolic parameter (name, required, location, type) and operationId against representative shapes
    if q:
        out.append((MOD, "mk", ("one", 1, 0, ("none", "multi_a"), ("json_a", "sse"), ("none",))))
        out.append((MOD, "mk", ("one", 0, 1, ("none", "multi_a"), ("json_a", "sse"), ("none",))))
        out.append((MOD, "mk", ("one", 0, 2, ("multi_a",), ("sse",), ("none",))))
    else:
        bs, rs = ("none", "json_a", "multi_a", "octet"), ("json_a", "none204", "sse", "bytes_stream")
        out.append((MOD, "mk", ("one", 1, 1, bs, rs, ("none",))))
        out.append((MOD, "mk", ("one", 2, 0, bs[:3], rs[:3], ("none",))))
        out.append((MOD, "mk", ("one", 0, 2, bs, rs, ("none", "stream206"))))
        out.append((MOD, "mk", ("one", 0, 3, ("multi_a",), ("json_a", "sse"), ("none",))))
    # (c) two operations of one tag, independent kinds
    two_b = ("none", "json_a", "json_b", "multi_a", "multi_b") if q else ("none", "json_a", "json_b", "json_list", "multi_a", "multi_b", "multi_form", "octet")
    two_r = ("json_a", "sse") if q else ("json_a", "json_list", "sse", "bytes_stream", "none204", "ndjson")
    out.append((MOD, "mk", ("two", 0, 0, two_b, two_r, ("none",) if q else ("none", "stream206"))))
    return out


def replay_ob(v):
    parts = v["obligation"].split("/")
    mode = parts[1]
    nlen, olen = int(parts[2][2:]), int(parts[3][2:])
    bs, rs, ss = parts[4][2:].split("+"), parts[5][2:].split("+"), parts[6][2:].split("+")
    return SigParity(mode, nlen, olen, bs, rs, ss)
