"""C20 — Name derivation is total, valid and collision-safe (engine E1 / symx)."""
from __future__ import annotations

import keyword
import os
import shutil
import tempfile

from symx import explore, hook
from symx.core import (
    Engine,
    SymStr,
    contains_any,
    mk_sym_str,
    ranges_of_pts,
    s_and,
    s_not,
    is_sym,
)
from symx.explore import Obligation, Raised, call_catching

hook.install()

MOD = "props.c20"

# alphabet for the pair/triple (collision) obligations: one or two representatives of every character class the
# sanitizers distinguish (lower, upper, digit, underscore, separators, symbol, non-ASCII letter, non-ASCII digit-like)
PAIR_ALPHA = ranges_of_pts([ord(c) for c in "abAB12_- .{$é²"])
# alphabet for the suffix-collision obligations (a longer name that already looks like a de-collision result: a_2, A_1)
SUFFIX_ALPHA = ranges_of_pts([ord(c) for c in "aA12_-"])
ALPHAS = {"pair": ("abAB12_- .{$é²", PAIR_ALPHA), "suffix": ("aA12_-", SUFFIX_ALPHA)}


def _I():
    import sxi_pyopenapi_gen as P  # noqa

    return P


def valid_ident(r):
    """Python's own notion: non-empty, str.isidentifier(), not a keyword.  Works on str and SymStr."""
    if isinstance(r, Raised) or r is None:
        return False
    if len(r) == 0:
        return False
    if isinstance(r, str):
        return r.isidentifier() and not keyword.iskeyword(r)
    return s_and(r.isidentifier(), s_not(contains_any(keyword.kwlist, r)))


# ------------------------------------------------------------------ kernels (name -> callable(module_root, *strings))
def _k_sanitizer(fn):
    def k(P, s):
        return getattr(P.core.utils.NameSanitizer, fn)(s)

    return k


def _k_filename(P, s):
    r = P.core.utils.NameSanitizer.sanitize_filename(s)
    if not r.endswith(".py"):
        return None
    return r[:-3]


def _k_enum_str_member(P, s):
    from importlib import import_module

    eg = import_module(P.__name__ + ".visit.model.enum_generator")
    return eg.EnumGenerator(renderer=object())._generate_member_name_for_string_enum(s)


def _k_enum_int_member(P, s, k=7):
    from importlib import import_module

    eg = import_module(P.__name__ + ".visit.model.enum_generator")
    return eg.EnumGenerator(renderer=object())._generate_member_name_for_integer_enum(s, k)


class _RecRenderer:
    """Recording stand-in for PythonConstructRenderer: the naming loops are the repo's, rendering is skipped."""

    def __init__(self):
        self.calls = []

    def render_dataclass(self, class_name, fields, description, context, field_mappings=None):
        self.calls.append(("dataclass", class_name, fields, field_mappings))
        context.add_import("dataclasses", "dataclass")
        context.add_import("dataclasses", "field")
        return "@dataclass\nclass X:\n    pass\n"

    def render_enum(self, enum_name, base_type, values, description, context):
        self.calls.append(("enum", enum_name, values))
        context.add_import("enum", "Enum")
        context.add_import("enum", "unique")
        return "class X(Enum):\n    pass\n"


def _mods(P):
    from importlib import import_module

    n = P.__name__
    return (
        import_module(n + ".visit.model.dataclass_generator"),
        import_module(n + ".visit.model.enum_generator"),
        import_module(n + ".context.render_context"),
    )


def _k_fields(P, *names):
    """DataclassGenerator.generate on an object schema whose property names are `names`:
    returns (field names in declaration order of `names`, wire-key map)."""
    dg, eg, rc = _mods(P)
    props = hook.SDict()
    for n in names:
        props[n] = P.IRSchema(type="string")
    if len(props) != len(names):
        return None  # names not distinct: precondition not met
    schema = P.IRSchema(name="Holder", type="object", properties=props, required=[])
    rec = _RecRenderer()
    ctx = rc.RenderContext(core_package_name="core", package_root_for_generated_code="/tmp/x", overall_project_root="/tmp")
    ctx.set_current_file("/tmp/x/models/holder.py")
    dg.DataclassGenerator(rec, hook.SDict()).generate(schema, "Holder", ctx)
    _, _, fields, mappings = rec.calls[0]
    mappings = mappings or {}
    out = []
    for n in names:
        out.append(mappings.get(n))
    return (out, [f[0] for f in fields])


def _k_enum_members(P, *values):
    dg, eg, rc = _mods(P)
    schema = P.IRSchema(name="Color", type="string", enum=list(values))
    rec = _RecRenderer()
    ctx = rc.RenderContext(core_package_name="core", package_root_for_generated_code="/tmp/x", overall_project_root="/tmp")
    ctx.set_current_file("/tmp/x/models/color.py")
    eg.EnumGenerator(rec).generate(schema, "Color", ctx)
    _, _, vals = rec.calls[0]
    return ([v[0] for v in vals], [v[1] for v in vals])


def _k_params(P, *names):
    from importlib import import_module

    n = P.__name__
    pp = import_module(n + ".visit.endpoint.processors.parameter_processor")
    rc = import_module(n + ".context.render_context")
    params = [P.IRParameter(name=x, param_in="query", required=False, schema=P.IRSchema(type="string")) for x in names]
    op = P.IROperation(
        operation_id="op", method=P.HTTPMethod.GET, path="/x", summary=None, description=None, parameters=params,
        request_body=None, responses=[], tags=[],
    )
    ctx = rc.RenderContext(core_package_name="core", package_root_for_generated_code="/tmp/x", overall_project_root="/tmp")
    ctx.set_current_file("/tmp/x/endpoints/e.py")
    ordered, _, _ = pp.EndpointParameterProcessor(hook.SDict()).process_parameters(op, ctx)
    by_orig = []
    for x in names:
        hit = [p["name"] for p in ordered if p["original_name"] is x]
        by_orig.append(hit[0] if len(hit) == 1 else None)
    return (by_orig, [p["name"] for p in ordered])


def _k_ops(P, *ids):
    from importlib import import_module

    n = P.__name__
    ee = import_module(n + ".emitters.endpoints_emitter")
    ops = [
        P.IROperation(operation_id=x, method=P.HTTPMethod.GET, path="/p%d" % i, summary=None, description=None,
                      parameters=[], request_body=None, responses=[], tags=[])
        for i, x in enumerate(ids)
    ]
    em = ee.EndpointsEmitter.__new__(ee.EndpointsEmitter)
    em._deduplicate_operation_ids_globally(ops)
    # the method name written by the generators is sanitize_method_name(op.operation_id)
    return [P.core.utils.NameSanitizer.sanitize_method_name(o.operation_id) for o in ops]


def _k_schemas(P, *names):
    """ModelsEmitter.emit's de-collision loop (file generation stubbed)."""
    from importlib import import_module

    n = P.__name__
    me = import_module(n + ".emitters.models_emitter")
    rc = import_module(n + ".context.render_context")
    schemas = hook.SDict()
    objs = []
    for x in names:
        s = P.IRSchema(name=x, type="object", properties={"v": P.IRSchema(type="string")})
        schemas[x] = s
        objs.append(s)
    if len(schemas) != len(names):
        return None
    root = tempfile.mkdtemp(prefix="c20_", dir=_workdir())
    try:
        ctx = rc.RenderContext(core_package_name="core", package_root_for_generated_code=root, overall_project_root=root)
        em = me.ModelsEmitter(ctx, schemas)
        em._generate_model_file = lambda schema_ir, models_dir: None
        em._generate_init_py_content = lambda: ""
        spec = P.IRSpec(title="t", version="1", schemas=schemas, operations=[], servers=[])
        em.emit(spec, root)
    finally:
        shutil.rmtree(root, ignore_errors=True)
    return ([s.generation_name for s in objs], [s.final_module_stem for s in objs])


def _workdir():
    from common import WORK

    d = os.path.join(WORK, "c20")
    os.makedirs(d, exist_ok=True)
    return d


SINGLE = {
    "sanitize_class_name": (_k_sanitizer("sanitize_class_name"), ["pyopenapi_gen.core.utils:NameSanitizer.sanitize_class_name"]),
    "sanitize_module_name": (_k_sanitizer("sanitize_module_name"), ["pyopenapi_gen.core.utils:NameSanitizer.sanitize_module_name"]),
    "sanitize_method_name": (_k_sanitizer("sanitize_method_name"), ["pyopenapi_gen.core.utils:NameSanitizer.sanitize_method_name"]),
    "sanitize_filename": (_k_filename, ["pyopenapi_gen.core.utils:NameSanitizer.sanitize_filename"]),
    "enum_string_member": (_k_enum_str_member, ["pyopenapi_gen.visit.model.enum_generator:EnumGenerator._generate_member_name_for_string_enum"]),
    "enum_integer_member": (_k_enum_int_member, ["pyopenapi_gen.visit.model.enum_generator:EnumGenerator._generate_member_name_for_integer_enum"]),
}

MULTI = {
    # name -> (kernel, functions, result_kind)
    "dataclass_fields": (_k_fields, ["pyopenapi_gen.visit.model.dataclass_generator:DataclassGenerator.generate",
                                     "pyopenapi_gen.core.utils:NameSanitizer.sanitize_method_name"]),
    "enum_members": (_k_enum_members, ["pyopenapi_gen.visit.model.enum_generator:EnumGenerator.generate"]),
    "operation_parameters": (_k_params, ["pyopenapi_gen.visit.endpoint.processors.parameter_processor:EndpointParameterProcessor.process_parameters"]),
    "operation_methods": (_k_ops, ["pyopenapi_gen.emitters.endpoints_emitter:EndpointsEmitter._deduplicate_operation_ids_globally"]),
    "schema_classes_modules": (_k_schemas, ["pyopenapi_gen.emitters.models_emitter:ModelsEmitter.emit"]),
}


def _real_root():
    import pyopenapi_gen as P  # uninstrumented

    return P


def _conc(x):
    if is_sym(x):
        return x.simp()
    return x


class Single(Obligation):
    def __init__(self, kname, n):
        self.kname, self.n = kname, n
        self.kernel, self.functions = SINGLE[kname]
        self.name = "valid/%s/len=%d" % (kname, n)
        self.bounds = {"string_length": n, "alphabet": "SIGMA(144)"}

    def make_inputs(self, e):
        return {"s": mk_sym_str(self.n)}

    def run_sym(self, inp):
        return call_catching(self.kernel, _I(), inp["s"])

    def run_real(self, inp):
        return call_catching(self.kernel, _real_root(), inp["s"])

    def prop(self, inp, r):
        ok = valid_ident(r)
        if self.kname == "enum_string_member" and not isinstance(r, Raised) and r is not None and len(r) > 0:
            # Enum's own rules for names with a leading underscore: `_x_` is reserved (ValueError when the class is
            # created), `__x__` is not a member, `__x` is mangled in the class body and not a member either
            lead = r.startswith("_")
            ok = s_and(ok, s_not(lead)) if not isinstance(ok, bool) or not isinstance(lead, bool) else (ok and not lead)
        return ok

    def describe_violation(self, inp, r):
        return "%s(%r) -> %r is not a non-empty, non-keyword Python identifier%s" % (self.kname, inp["s"], r, " that Enum accepts as a member name (leading underscore)" if self.kname == "enum_string_member" else "")


def all_distinct(names):
    """pairwise distinct (works on str / SymStr)"""
    for i in range(len(names)):
        for j in range(i + 1, len(names)):
            a, b = names[i], names[j]
            if a is None or b is None:
                return False
            if len(a) == len(b) and bool(a == b):
                return False
    return True


class Multi(Obligation):
    """k distinct spec names in one namespace: every one keeps a distinct valid identifier; none dropped/merged."""

    def __init__(self, kname, lens, alpha="pair"):
        self.kname, self.lens = kname, tuple(lens)
        self.kernel, self.functions = MULTI[kname]
        self.name = "distinct/%s/lens=%s%s" % (kname, "x".join(map(str, lens)), "" if alpha == "pair" else "/" + alpha)
        self.alpha_text, self.alphabet = ALPHAS[alpha]
        self.bounds = {"string_lengths": list(lens), "alphabet": self.alpha_text}

    def make_inputs(self, e):
        inp = {}
        for i, n in enumerate(self.lens):
            inp["s%d" % i] = mk_sym_str(n, "s%d" % i, self.alphabet)
        names = list(inp.values())
        # precondition: the spec names are pairwise distinct (a JSON object cannot repeat a key)
        for i in range(len(names)):
            for j in range(i + 1, len(names)):
                if len(names[i]) == len(names[j]):
                    e.assume(s_not(names[i] == names[j]))
        return inp

    def _args(self, inp):
        return [inp["s%d" % i] for i in range(len(self.lens))]

    def run_sym(self, inp):
        return call_catching(self.kernel, _I(), *self._args(inp))

    def run_real(self, inp):
        return call_catching(self.kernel, _real_root(), *self._args(inp))

    def prop(self, inp, r):
        if isinstance(r, Raised) or r is None:
            return False
        k = len(self.lens)
        if self.kname == "operation_methods":
            names = r
            return len(names) == k and all(bool(valid_ident(x)) for x in names) and all_distinct(names)
        if self.kname == "schema_classes_modules":
            classes, mods = r
            return (
                len(classes) == k and len(mods) == k
                and all(bool(valid_ident(x)) for x in classes) and all(bool(valid_ident(x)) for x in mods)
                and all_distinct(classes) and all_distinct(mods)
            )
        if self.kname == "enum_members":
            members, values = r
            if len(members) != k:
                return False
            # each value keeps its own member, in order, bound to the original string
            for v, a in zip(values, self._args(inp)):
                if not (len(v) == len(a) and bool(v == a)):
                    return False
            return all(bool(valid_ident(x)) for x in members) and all_distinct(members)
        # dataclass_fields / operation_parameters: (names by original, all names)
        by_orig, allnames = r
        return (
            len(allnames) == k and all(x is not None for x in by_orig)
            and all(bool(valid_ident(x)) for x in by_orig) and all_distinct(by_orig) and all_distinct(allnames)
        )

    def known(self, inp, r):
        # listed finding: two parameters of one operation sanitise to the same identifier (duplicate argument);
        # only that exact shape is classified: every name valid, none dropped, but not pairwise distinct.
        if self.kname == "operation_parameters" and not isinstance(r, Raised) and r is not None:
            by_orig, allnames = r
            if (len(allnames) == len(self.lens) and all(x is not None for x in by_orig)
                    and all(bool(valid_ident(x)) for x in by_orig) and not all_distinct(by_orig)):
                return "param-collision"
        return None

    def describe_violation(self, inp, r):
        return "%s%r -> %r: identifiers are not all valid and pairwise distinct (or one was dropped)" % (
            self.kname, tuple(self._args(inp)), r)


def mk_single(kname, n):
    return Single(kname, n)


def mk_multi(kname, lens, alpha="pair"):
    return Multi(kname, lens, alpha)


def specs(tier):
    out = []
    nmax = 3 if tier == "quick" else 4  # (5 characters over 144 code points cost hours and found nothing beyond 4)
    for k in SINGLE:
        kmax = nmax
        if tier == "thorough" and k in ("enum_string_member", "enum_integer_member"):
            kmax = 5
        for n in range(0, kmax + 1):
            out.append((MOD, "mk_single", (k, n)))
    pair_lens = [(1, 1), (1, 2), (2, 1), (2, 2)] if tier == "quick" else [(1, 1), (1, 2), (2, 1), (2, 2), (2, 3), (3, 2), (1, 3), (3, 1)]
    for k in MULTI:
        for lens in pair_lens:
            out.append((MOD, "mk_multi", (k, lens)))
        if tier == "thorough":
            for lens in [(1, 1, 1), (1, 1, 2), (1, 2, 1), (2, 1, 1), (2, 2, 1), (2, 1, 2), (1, 2, 2)]:
                out.append((MOD, "mk_multi", (k, lens)))
            if k == "operation_methods":
                out.append((MOD, "mk_multi", (k, (3, 1, 1))))
        else:
            out.append((MOD, "mk_multi", (k, (1, 1, 1))))
            if k == "operation_methods":
                out.append((MOD, "mk_multi", (k, (2, 1, 1))))
        # a name that already looks like a de-collision result (a_2) next to two names that collide
        if tier == "quick":
            suffix_lens = [(3, 1, 1), (1, 1, 3)] if k in ("enum_members", "operation_methods") else [(3, 1, 1)]
            if k == "schema_classes_modules":
                suffix_lens += [(2, 1, 1), (1, 1, 2)]  # class names are de-collided without a separator: A, A -> A, A2 next to a2
        else:
            suffix_lens = [(3, 1, 1), (1, 3, 1), (1, 1, 3), (2, 1, 1), (1, 2, 1), (1, 1, 2)]
        for lens in suffix_lens:
            out.append((MOD, "mk_multi", (k, lens, "suffix")))
    return out


def run(tier, rep, only=None):
    sp = specs(tier)
    if only:
        sp = [s for s in sp if only in explore.build(s).name]
    rep.bounds = {
        "single_name_max_len": 3 if tier == "quick" else "4 (5 for enum kernels)",
        "pair_lengths": "<=2x2 (+1x1x1)" if tier == "quick" else "<=3x2 / 1x3, triples <=2x2x1",
        "alphabet_single": "SIGMA = ASCII 0..127 + 16 non-ASCII exemplars (144 code points)",
        "alphabet_multi": "abAB12_- .{$é²",
    }
    rep.stubs = ["PythonConstructRenderer -> recording stub (rendering skipped, naming loops real)",
                 "ModelsEmitter._generate_model_file/_generate_init_py_content -> no-op (naming loop real)", "logging -> no-op"]
    rep.assumptions = ["spec names placed in one namespace are pairwise distinct strings",
                       "z3 decides QF_LIA queries correctly", "CPython's str/re semantics tabulated per character over the alphabet"]
    res = explore.run_all(sp, log=lambda m: print("[c20]", m, flush=True))
    for spec in sp:
        ob = explore.build(spec)
        rep.add_symx(res[ob.name], functions=ob.functions, bounds=ob.bounds)


def replay(path):
    import json

    v = json.load(open(path))["violation"]
    name = v["obligation"]
    kind, kname, _ = name.split("/", 2)
    P = _real_root()
    if kind == "valid":
        r = call_catching(SINGLE[kname][0], P, v["inputs"]["s"])
        ok = bool(valid_ident(r))
        print("replay %s(%r) -> %r valid=%s" % (kname, v["inputs"]["s"], r, ok))
    else:
        args = [v["inputs"][k] for k in sorted(v["inputs"])]
        ob = Multi(kname, [len(a) for a in args], "suffix" if name.endswith("/suffix") else "pair")
        r = call_catching(MULTI[kname][0], P, *args)
        ok = bool(ob.prop({("s%d" % i): a for i, a in enumerate(args)}, r))
        print("replay %s%r -> %r holds=%s" % (kname, tuple(args), r, ok))
    return 0 if ok else 1
