"""C19 — Output depends on the document's meaning, not its rendering (engine E1 / symx; metamorphic, partial).

Decided (no oracle, only equality between two runs of the REAL loader on two renderings of one document):
  scalar typing   a response key given as the int c (YAML `200:`) or as the string str(c): same operations, same status,
                  for every symbolic c in 100..599 (also next to a `default` key);
  schema order    for the cyclic graph templates of props/c02.py with symbolic schema names: the per-schema result
                  (registrations, property keys with kinds, required set, union members) is the same for EVERY
                  declaration order of components.schemas;
  property order  the two orders of an object's properties give the same fields.
  path order      two / three paths whose operations (symbolic operationIds) share one component parameter with an inline
                  enum / array-of-enum / object schema: every order of `paths` gives each operation the same parameters
                  and registers the same set of schemas.
Not decided: JSON vs YAML block/flow renderings (that equivalence lives in PyYAML).
"""
from __future__ import annotations

import itertools
import json

from props import c02, c07
from symx import explore, hook
from symx.core import SymStr, is_sym, mk_sym_int, s_not
from symx.explore import Obligation, Raised, call_catching

MOD = "props.c19"


class ScalarTyping(Obligation):
    functions = c07.StatusKey.functions

    def __init__(self, sibling):
        self.sibling = sibling
        self.name = "status_key_typing%s" % ("+default" if sibling else "")
        self.bounds = {"status": "symbolic int 100..599", "renderings": "int key (YAML unquoted) vs str key (JSON / quoted)"}

    def make_inputs(self, e):
        return {"code": mk_sym_int("code", 100, 599)}

    def _run(self, P, inp):
        a = call_catching(c07.k_status, P, inp["code"], True, self.sibling)
        b = call_catching(c07.k_status, P, inp["code"], False, self.sibling)
        return (a, b)

    def run_sym(self, inp):
        return self._run(c07._I(), inp)

    def run_real(self, inp):
        return self._run(c07._R(), inp)

    def normalise(self, r):
        def n(x):
            if isinstance(x, tuple) and x[1]:
                return (x[0], [c07._simp(y) for y in x[1]])
            return x

        return (n(r[0]), n(r[1]))

    def prop(self, inp, r):
        a, b = r
        if isinstance(a, Raised) or isinstance(b, Raised):
            return isinstance(a, Raised) and isinstance(b, Raised)
        if a[0] != b[0] or (a[1] is None) != (b[1] is None):
            return False
        if a[1] is None:
            return True
        if len(a[1]) != len(b[1]):
            return False
        return all(len(x) == len(y) and bool(x == y) for x, y in zip(a[1], b[1]))

    def describe_violation(self, inp, r):
        return "status %r: int-key rendering -> %r, str-key rendering -> %r" % (inp["code"], r[0], r[1])


def mk_scalar(sibling):
    return ScalarTyping(sibling)


class SchemaOrder(c02.Fidelity):
    """Same names, every declaration order: the per-schema results must coincide (metamorphic; no oracle)."""

    KIND = "schema_order"

    def make_inputs(self, e):
        inp = c02.Fidelity.make_inputs(self, e)
        inp.pop("order")  # all orders are run and compared
        return inp

    def _all(self, P, inp):
        n = c02.TEMPLATES[self.template][0]
        names = [inp["name%d" % i] for i in range(n)]
        out = []
        for order in itertools.permutations(range(n)):
            r = call_catching(c02.k_parse, P, self.template, names, list(order))
            out.append(r if (r is None or isinstance(r, Raised)) else r[0])
        return out

    def run_sym(self, inp):
        return self._all(c02._I(), inp)

    def run_real(self, inp):
        return self._all(c02._R(), inp)

    def normalise(self, r):
        out = []
        for x in r:
            if isinstance(x, list):
                out.append([(c, {c02._s(k): v for k, v in p.items()}, [c02._s(q) for q in req], sh, mem) + tuple(c02._sn(m) for m in more) for c, p, req, sh, mem, *more in x])
            else:
                out.append(x)
        return out

    def verdict(self, inp, r):
        first = r[0]
        for k, other in enumerate(r[1:], 1):
            if first is None or other is None:
                continue
            if isinstance(first, Raised) or isinstance(other, Raised):
                if not (isinstance(first, Raised) and isinstance(other, Raised)):
                    return False, "declaration order #%d raises, order #0 does not (or vice versa)" % k
                continue
            for i, (a, b) in enumerate(zip(first, other)):
                pa = {c02._s(x): v for x, v in a[1].items()}
                pb = {c02._s(x): v for x, v in b[1].items()}
                if a[0] != b[0] or pa != pb or sorted(map(str, a[2])) != sorted(map(str, b[2])) or a[3] != b[3] or a[4] != b[4]:
                    return False, "schema #%d differs between declaration order #0 and #%d: %r vs %r" % (i, k, (a[0], pa, a[2]), (b[0], pb, b[2]))
                # class / module assigned by the emitter (union templates): the same whatever the order
                ea, eb = (a[5][0] if len(a) > 5 else None), (b[5][0] if len(b) > 5 else None)
                if not _deep_eq(ea, eb):
                    return False, "schema #%d is emitted as %r in declaration order #0 and as %r in order #%d" % (i, c02._sn(ea), c02._sn(eb), k)
        return True, ""

    def _names(self, inp):
        return [inp["name%d" % i] for i in range(c02.TEMPLATES[self.template][0])]

    def known(self, inp, r):
        ok, _ = self.verdict(inp, r)
        if ok:
            return None
        # the order-dependent losses of C02, by the same predicates over the inputs
        names = self._names(inp)
        P = c02._I() if any(is_sym(x) for x in names) else c02._R()
        san = P.core.utils.NameSanitizer.sanitize_class_name
        if self.template in ("map", "allof_cycle"):
            return "order-dependent-loss-on-cycles"
        for i, a in enumerate(names):
            for j, b in enumerate(names):
                if i != j and len(a) < len(b) and bool(b.startswith(a)):
                    return "order-dependent-loss-on-cycles"
            for tok in ("Item", "Property"):
                if len(a) >= len(tok) and bool(SymStr.lift(a).contains_expr(tok)):
                    return "order-dependent-loss-on-cycles"
        return None

    def describe_violation(self, inp, r):
        return "template %s, names %r: %s" % (self.template, self._names(inp), self.verdict(inp, r)[1])


def mk_order(template, lens, tokens=False):
    return SchemaOrder(template, lens, tokens)


PROP_SHAPES = {
    "string": {"type": "string"},
    "nullable_string": {"type": "string", "nullable": True},
    "type_list_null": {"type": ["integer", "null"]},
    "self_ref": None,  # filled with the schema's own name
    "int_array": {"type": "array", "items": {"type": "integer"}},
    "inline_enum": {"type": "string", "enum": ["low", "high"]},
    "nullable_inline_enum": {"type": "string", "enum": ["on", "off"], "nullable": True},
    "array_of_inline_objects": {"type": "array", "items": {"type": "object", "properties": {"k": {"type": "string"}}}},
    "inline_object": {"type": "object", "properties": {"j": {"type": "integer"}}},
    "nullable_inline_object": {"type": "object", "nullable": True, "properties": {"i": {"type": "integer"}}},
    "inline_oneof": {"oneOf": [{"type": "string"}, {"type": "integer"}]},
}
PROP_KEYS = list(PROP_SHAPES)


def k_prop_order(P, name, flip, shapes=("string", "self_ref", "int_array")):
    from importlib import import_module

    ext = import_module(P.__name__ + ".core.loader.schemas.extractor")
    inst = P.__name__.startswith("sxi_")
    D = hook.SDict if inst else dict
    import copy

    props = []
    for label, sh in zip(("first", "second", "third"), shapes):
        node = {"$ref": "#/components/schemas/" + name} if sh == "self_ref" else copy.deepcopy(PROP_SHAPES[sh])
        props.append((label, node))
    if flip:
        props.reverse()
    node = D(type="object", required=["first", "second"])
    pd = D()
    for k, v in props:
        pd[k] = hook.to_sx(v) if inst else v
    node["properties"] = pd
    raw = D()
    raw[name] = node
    ctx = ext.build_schemas(raw, D(schemas=raw))
    san = P.core.utils.NameSanitizer.sanitize_class_name(name)
    hits = [v for k, v in ctx.parsed_schemas.items() if c02._eqs(k, name) or c02._eqs(k, san)]
    best = max(hits, key=lambda v: len(v.properties or {})) if hits else None
    if best is None:
        return None
    return (len(hits), sorted((k, c02._kind(v, [name], [san]), bool(v.is_nullable)) for k, v in best.properties.items()), sorted(best.required or []))


class PropertyOrder(Obligation):
    functions = ["pyopenapi_gen.core.parsing.schema_parser:_parse_properties", "pyopenapi_gen.core.parsing.schema_parser:_parse_schema"]
    alphabet = c02.NAME_ALPHA

    def __init__(self, n, pairs=False):
        self.n, self.pairs = n, pairs
        self.name = "property_order/len=%d%s" % (n, "/pairs" if pairs else "")
        self.bounds = {"schema_name_length": n, "alphabet": c02.NAME_ALPHA_TXT,
                       "properties": ("every ordered pair of %r followed by a string, in both orders" % (PROP_KEYS,)) if pairs else "string, self reference, array of integer, in both orders",
                       "compared": "kind and nullability of every property, required list"}

    def make_inputs(self, e):
        from symx.core import mk_sym_str

        inp = {"name": mk_sym_str(self.n, "n", c02.NAME_ALPHA)}
        if self.pairs:
            a = e.choose(len(PROP_KEYS), "p0")
            b = e.choose(len(PROP_KEYS) - 1, "p1")
            inp["shapes"] = [PROP_KEYS[a], [k for k in PROP_KEYS if k != PROP_KEYS[a]][b], "string"]
        return inp

    def _run(self, P, inp):
        shapes = tuple(inp.get("shapes") or ("string", "self_ref", "int_array"))
        return (call_catching(k_prop_order, P, inp["name"], False, shapes), call_catching(k_prop_order, P, inp["name"], True, shapes))

    def run_sym(self, inp):
        return self._run(c02._I(), inp)

    def run_real(self, inp):
        return self._run(c02._R(), inp)

    def prop(self, inp, r):
        a, b = r
        if isinstance(a, Raised) or isinstance(b, Raised):
            return isinstance(a, Raised) and isinstance(b, Raised)
        if a != b:
            return False
        # and what each order says about nullability is what the document says
        if a is not None and inp.get("shapes"):
            want = {lab: ("nullable" in sh or sh == "type_list_null") for lab, sh in zip(("first", "second", "third"), inp["shapes"])}
            for k, _kind, nul in a[1]:
                if str(k) in want and nul != want[str(k)]:
                    return False
        return True

    def describe_violation(self, inp, r):
        return "schema %r, properties %r: declared order -> %r, reversed -> %r" % (inp["name"], inp.get("shapes"), r[0], r[1])


def mk_prop_order(n, pairs=False):
    return PropertyOrder(n, pairs)


def k_primary(P, codes):
    """return type chosen by the real ResponseStrategyResolver for an operation whose responses are listed in this order"""
    from importlib import import_module

    rs = import_module(P.__name__ + ".types.strategies.response_strategy")
    rc = import_module(P.__name__ + ".context.render_context")
    bodies = {"200": "string", "201": "integer", "202": "boolean", "204": None, "203": "number", "default": "string"}
    resps = []
    for c in codes:
        t = bodies[c]
        resps.append(P.IRResponse(status_code=c, description="d", content={"application/json": P.IRSchema(type=t)} if t else {}))
    op = P.IROperation(operation_id="op", method=P.HTTPMethod.GET, path="/x", summary=None, description=None, parameters=[],
                       request_body=None, responses=resps, tags=[])
    ctx = rc.RenderContext(core_package_name="core", package_root_for_generated_code="/tmp/x", overall_project_root="/tmp")
    ctx.set_current_file("/tmp/x/endpoints/e.py")
    return rs.ResponseStrategyResolver({}).resolve(op, ctx).return_type


class ResponseOrder(Obligation):
    """The primary success response (and with it the return type) must not depend on the order of the response keys."""

    functions = ["pyopenapi_gen.types.strategies.response_strategy:ResponseStrategyResolver._get_primary_response",
                 "pyopenapi_gen.types.strategies.response_strategy:ResponseStrategyResolver.resolve"]
    POOL = ["200", "201", "202", "204", "203", "default"]

    def __init__(self, k):
        self.k = k
        self.name = "response_key_order/k=%d" % k
        self.bounds = {"responses": "every %d-subset of %r, every order (solver-chosen)" % (k, self.POOL)}

    def make_inputs(self, e):
        subsets = list(itertools.combinations(self.POOL, self.k))
        return {"codes": list(subsets[e.choose(len(subsets), "subset")])}

    def _run(self, P, inp):
        return [call_catching(k_primary, P, list(perm)) for perm in itertools.permutations(inp["codes"])]

    def run_sym(self, inp):
        return self._run(c02._I(), inp)

    def run_real(self, inp):
        return self._run(c02._R(), inp)

    def prop(self, inp, r):
        return all(x == r[0] for x in r[1:])

    def describe_violation(self, inp, r):
        return "responses %r: return type per listing order %r" % (inp["codes"], r)


def mk_resp_order(k):
    return ResponseOrder(k)


def k_path_order(P, ids, kind, order):
    """two (three) paths, one GET each, all using the shared component parameter `Sort`; returns per operation
    (path -> [(parameter name, location, schema name, schema type, items schema name)]) and the set of schema names
    registered while parsing"""
    from importlib import import_module

    ops_mod = import_module(P.__name__ + ".core.loader.operations")
    ctx_mod = import_module(P.__name__ + ".core.parsing.context")
    D = hook.SDict if c07._inst(P) else dict
    sort_schema = {"enum_array": D(type="array", items=D(type="string", enum=["asc", "desc"])), "inline_object": D(type="object", properties=D(by=D(type="string"))),
                   "enum": D(type="string", enum=["asc", "desc"]), "string": D(type="string")}[kind]
    comp = D()
    comp["Sort"] = D({"name": "sort", "in": "query", "schema": sort_schema})
    paths = D()
    names = ["/p%d" % i for i in range(len(ids))]
    for i in order:
        paths[names[i]] = D(get=D(operationId=ids[i], parameters=[D({"$ref": "#/components/parameters/Sort"})], responses=c07.OK_RESP))
    ctx = ctx_mod.ParsingContext()
    ctx.raw_spec_components = D(parameters=comp)
    ops = ops_mod.parse_operations(paths, comp, D(), D(), ctx)
    out = []
    for n in names:
        hit = [o for o in ops if o.path == n]
        if len(hit) != 1:
            out.append(None)
            continue
        out.append([(p.name, p.param_in, p.schema.name if p.schema else None, p.schema.type if p.schema else None,
                     p.schema.items.name if (p.schema and p.schema.items) else None) for p in hit[0].parameters])
    return (out, [k for k in ctx.parsed_schemas.keys()])


class PathOrder(Obligation):
    """Reordering the entries of `paths` changes neither the parameters of an operation nor the set of schemas."""

    functions = ["pyopenapi_gen.core.loader.operations.parser:parse_operations", "pyopenapi_gen.core.loader.parameters.parser:parse_parameter",
                 "pyopenapi_gen.core.loader.parameters.parser:resolve_parameter_node_if_ref"]
    KINDS = ["enum_array", "inline_object", "enum", "string"]

    def __init__(self, lens):
        self.lens = tuple(lens)
        self.name = "path_order/lens=%s" % "x".join(map(str, lens))
        self.bounds = {"paths": len(lens), "operationId_lengths": list(lens), "shared parameter schema": self.KINDS, "orders": "all permutations compared with the declaration order"}
        self.perms = list(itertools.permutations(range(len(lens))))

    def make_inputs(self, e):
        from symx.core import mk_sym_str

        from symx.core import ranges_of_pts

        alpha = ranges_of_pts([ord(c) for c in "abAB12"])
        inp = {"id%d" % i: mk_sym_str(n, "id%d" % i, alpha) for i, n in enumerate(self.lens)}
        # the property speaks about documents without name collisions: operationIds that stay distinct ignoring case
        for i in range(len(self.lens)):
            for j in range(i + 1, len(self.lens)):
                if self.lens[i] == self.lens[j]:
                    e.assume(s_not(inp["id%d" % i].lower() == inp["id%d" % j].lower()))
        inp["kind"] = self.KINDS[e.choose(len(self.KINDS), "kind")]
        inp["order"] = e.choose(len(self.perms), "order")
        return inp

    def _run(self, P, inp):
        ids = [inp["id%d" % i] for i in range(len(self.lens))]
        return (call_catching(k_path_order, P, ids, inp["kind"], self.perms[0]), call_catching(k_path_order, P, ids, inp["kind"], self.perms[inp["order"]]))

    def run_sym(self, inp):
        return self._run(c07._I(), inp)

    def run_real(self, inp):
        return self._run(c07._R(), inp)

    def normalise(self, r):
        def n(x):
            if isinstance(x, Raised):
                return x
            ops, names = x
            return ([[tuple(c07._simp(v) for v in p) for p in o] if o is not None else None for o in ops], sorted(str(c07._simp(k)) for k in names))

        return (n(r[0]), n(r[1]))

    def prop(self, inp, r):
        a, b = r
        if isinstance(a, Raised) or isinstance(b, Raised):
            return isinstance(a, Raised) and isinstance(b, Raised)
        (oa, na), (ob_, nb) = a, b

        def eq(x, y):
            if x is None or y is None or isinstance(x, (int, bool)) or isinstance(y, (int, bool)):
                return x is y or x == y
            return len(x) == len(y) and bool(x == y)

        if len(oa) != len(ob_):
            return False
        for x, y in zip(oa, ob_):
            if (x is None) != (y is None):
                return False
            if x is None:
                continue
            if len(x) != len(y) or not all(all(eq(u, v) for u, v in zip(p, q)) for p, q in zip(x, y)):
                return False
        if len(na) != len(nb):
            return False
        return all(any(eq(k, k2) for k2 in nb) for k in na)

    def describe_violation(self, inp, r):
        n = self.normalise(r)
        return "operationIds %r, shared parameter schema %s: declaration order gives %r, order %r gives %r" % (
            [c07._simp(inp["id%d" % i]) for i in range(len(self.lens))], inp["kind"], n[0], self.perms[inp["order"]], n[1])


def mk_path_order(lens):
    return PathOrder(lens)


# ------------------------------------------------------------------ inline bodies of operations under path reordering
BODY_KINDS = ["array_of_objects", "array_of_arrays_of_objects", "object", "array_of_strings", "object_with_array_property"]


def _describe(sch, depth=0):
    if sch is None or depth > 3:
        return None
    props = sorted(str(c07._simp(k)) for k in (sch.properties or {}).keys())
    return (sch.name, sch.type, props, _describe(sch.items, depth + 1))


def k_path_bodies(P, ids, kind, where, order):
    """one operation per path, each with an inline success body (where='response') or request body (where='request') of
    the same shape but its own property name -> per operation the description of its body schema (name, type, property
    names, items...) and the registry of named schemas (name -> type, property names)"""
    from importlib import import_module

    ops_mod = import_module(P.__name__ + ".core.loader.operations")
    ctx_mod = import_module(P.__name__ + ".core.parsing.context")
    D = hook.SDict if c07._inst(P) else dict

    def body(i):
        o = D(type="object", properties=D({"f%d" % i: D(type="string")}))
        return {"array_of_objects": lambda: D(type="array", items=o), "array_of_arrays_of_objects": lambda: D(type="array", items=D(type="array", items=o)),
                "object": lambda: o, "array_of_strings": lambda: D(type="array", items=D(type="string")),
                "object_with_array_property": lambda: D(type="object", properties=D({"rows%d" % i: D(type="array", items=o)}))}[kind]()

    paths = D()
    names = ["/p%d" % i for i in range(len(ids))]
    for i in order:
        op = D(operationId=ids[i])
        if where == "response":
            op["responses"] = D({"200": D(description="ok", content=D({"application/json": D(schema=body(i))}))})
        else:
            op["requestBody"] = D(required=True, content=D({"application/json": D(schema=body(i))}))
            op["responses"] = c07.OK_RESP
        paths[names[i]] = D(post=op)
    ctx = ctx_mod.ParsingContext()
    ops = ops_mod.parse_operations(paths, D(), D(), D(), ctx)
    out = []
    for n in names:
        hit = [o for o in ops if o.path == n]
        if len(hit) != 1:
            out.append(None)
            continue
        if where == "response":
            schs = [sc for r in hit[0].responses for sc in r.content.values()]
        else:
            schs = list(hit[0].request_body.content.values()) if hit[0].request_body else []
        out.append([_describe(x) for x in schs])
    reg = [(k, v.type, sorted(str(c07._simp(q)) for q in (v.properties or {}).keys())) for k, v in ctx.parsed_schemas.items()]
    return (out, reg)


def _deep_eq(x, y):
    if isinstance(x, (list, tuple)) and isinstance(y, (list, tuple)):
        return len(x) == len(y) and all(_deep_eq(u, v) for u, v in zip(x, y))
    if x is None or y is None or isinstance(x, (int, bool)) or isinstance(y, (int, bool)):
        return x is y or x == y
    if isinstance(x, (list, tuple)) or isinstance(y, (list, tuple)):
        return False
    return len(x) == len(y) and bool(x == y)


class PathBodies(Obligation):
    """Reordering `paths` changes neither the model an operation's inline body refers to (name AND fields) nor the
    registry of named schemas."""

    functions = ["pyopenapi_gen.core.loader.operations.parser:parse_operations", "pyopenapi_gen.core.loader.responses.parser:parse_response",
                 "pyopenapi_gen.core.loader.operations.request_body:parse_request_body", "pyopenapi_gen.core.loader.operations.post_processor:post_process_operation",
                 "pyopenapi_gen.core.parsing.schema_parser:_parse_schema"]

    def __init__(self, where, lens):
        self.where, self.lens = where, tuple(lens)
        self.name = "path_bodies/%s/lens=%s" % (where, "x".join(map(str, lens)))
        self.bounds = {"paths": len(lens), "operationId_lengths": list(lens), "inline body shape": BODY_KINDS, "body of": where,
                       "orders": "all permutations compared with the declaration order"}
        self.perms = list(itertools.permutations(range(len(lens))))

    def make_inputs(self, e):
        from symx.core import mk_sym_str, ranges_of_pts

        alpha = ranges_of_pts([ord(c) for c in "abAB12"])
        inp = {"id%d" % i: mk_sym_str(n, "id%d" % i, alpha) for i, n in enumerate(self.lens)}
        for i in range(len(self.lens)):
            for j in range(i + 1, len(self.lens)):
                if self.lens[i] == self.lens[j]:
                    e.assume(s_not(inp["id%d" % i].lower() == inp["id%d" % j].lower()))
        inp["kind"] = BODY_KINDS[e.choose(len(BODY_KINDS), "kind")]
        inp["order"] = 1 + e.choose(len(self.perms) - 1, "order")
        return inp

    def _run(self, P, inp):
        ids = [inp["id%d" % i] for i in range(len(self.lens))]
        return (call_catching(k_path_bodies, P, ids, inp["kind"], self.where, self.perms[0]), call_catching(k_path_bodies, P, ids, inp["kind"], self.where, self.perms[inp["order"]]))

    def run_sym(self, inp):
        return self._run(c07._I(), inp)

    def run_real(self, inp):
        return self._run(c07._R(), inp)

    def normalise(self, r):
        def simp(x):
            if isinstance(x, (list, tuple)):
                return [simp(v) for v in x]
            return c07._simp(x)

        return tuple(x if isinstance(x, Raised) else simp(x) for x in r)

    def prop(self, inp, r):
        a, b = r
        if isinstance(a, Raised) or isinstance(b, Raised):
            return isinstance(a, Raised) and isinstance(b, Raised)
        (oa, ra), (ob_, rb) = a, b
        if not _deep_eq(oa, ob_):
            return False
        if len(ra) != len(rb):
            return False
        return all(any(_deep_eq(x, y) for y in rb) for x in ra)

    def describe_violation(self, inp, r):
        n = self.normalise(r)
        return "operationIds %r, inline %s body %s: declaration order gives %r ; order %r gives %r" % (
            [c07._simp(inp["id%d" % i]) for i in range(len(self.lens))], self.where, inp["kind"], n[0], self.perms[inp["order"]], n[1])


def mk_path_bodies(where, lens):
    return PathBodies(where, lens)


def specs(tier):
    q = tier == "quick"
    out = [(MOD, "mk_path_order", ((1, 1),)), (MOD, "mk_path_bodies", ("response", (1, 1))), (MOD, "mk_path_bodies", ("request", (1, 1))), (MOD, "mk_scalar", (False,)), (MOD, "mk_scalar", (True,)), (MOD, "mk_resp_order", (2,))]
    if not q:
        out.append((MOD, "mk_resp_order", (3,)))
        out.append((MOD, "mk_path_order", ((2, 1),)))
        out.append((MOD, "mk_path_order", ((1, 1, 1),)))
        out.append((MOD, "mk_path_bodies", ("response", (2, 1))))
        out.append((MOD, "mk_path_bodies", ("request", (1, 1, 1))))
    for n in ((1, 2) if q else (1, 2, 3)):
        out.append((MOD, "mk_prop_order", (n,)))
    out.append((MOD, "mk_prop_order", (1, True)))
    if not q:
        out.append((MOD, "mk_prop_order", (2, True)))
    for t, (n, _, _, _) in c02.TEMPLATES.items():
        if q and n == 3 and t != "ring3":
            continue  # six permutations of three schemas per path: thorough tier
        out.append((MOD, "mk_order", (t, (1,) * n)))
        if n == 2 and not q:
            out.append((MOD, "mk_order", (t, (2, 1))))
            out.append((MOD, "mk_order", (t, (1, 2))))
            out.append((MOD, "mk_order", (t, (1, 1), True)))
    if q:
        out.append((MOD, "mk_order", ("mutual", (2, 1))))
        out.append((MOD, "mk_order", ("mutual", (1, 1), True)))
    return out


def run(tier, rep, only=None):
    sp = specs(tier)
    if only:
        sp = [s for s in sp if only in explore.build(s).name]
    rep.bounds = {"scalar_typing": "status 100..599 as int vs str key", "schema_order": "C02 templates, symbolic names (<=1 quick / <=2 thorough + tokens), every permutation compared",
                  "property_order": "one object, three properties, both orders, symbolic schema name"}
    rep.stubs = ["logging/warnings -> no-op"]
    rep.assumptions = ["JSON vs YAML renderings differ for the loader only in scalar typing of keys (PyYAML itself is outside the claim)", "documents without name collisions"]
    res = explore.run_all(sp, log=lambda m: print("[c19]", m, flush=True), slice_s=15.0)
    for s in sp:
        ob = explore.build(s)
        rep.add_symx(res[ob.name], functions=ob.functions, bounds=ob.bounds)


def replay(path):
    v = json.load(open(path))["violation"]
    parts = v["obligation"].split("/")
    if parts[0].startswith("status_key_typing"):
        ob = ScalarTyping(parts[0].endswith("+default"))
    elif parts[0] == "path_order":
        ob = PathOrder([int(x) for x in parts[1].split("=")[1].split("x")])
    elif parts[0] == "path_bodies":
        ob = PathBodies(parts[1], [int(x) for x in parts[2].split("=")[1].split("x")])
    elif parts[0] == "response_key_order":
        ob = ResponseOrder(int(parts[1].split("=")[1]))
    elif parts[0] == "property_order":
        ob = PropertyOrder(len(v["inputs"]["name"]), parts[-1] == "pairs")
    else:
        ob = SchemaOrder(parts[1], [1] * c02.TEMPLATES[parts[1]][0])
    r = ob.run_real(v["inputs"])
    ok = bool(ob.prop(v["inputs"], r))
    print("replay %s inputs=%r -> holds=%s" % (v["obligation"], v["inputs"], ok))
    return 0 if ok else 1
