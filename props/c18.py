"""C18 — Stream decoders are independent of chunking (engine E1 / symx).

Kernel: the repo's iter_sse / _parse_sse_event / iter_sse_events_text / iter_ndjson (instrumented), fed by a stub response
whose aiter_lines() is httpx's own loop over httpx's real LineDecoder (instrumented from the installed httpx source) and
whose aiter_text() yields the chunks.  Symbolic: the characters of the stream text; split points are solver-decided
choices.  Oracles: (M) metamorphic - items for the chunked stream == items for the unsplit stream;
(R) a deliberately weak reference for canonical (LF-terminated) input.
"""
from __future__ import annotations

import importlib
import os

from symx import explore, hook
from symx.core import Engine, SymStr, mk_sym_str, ranges_of_pts, is_sym
from symx.explore import Obligation

hook.install()
MOD = "props.c18"

ALPHA_TXT = "dat: \n\rxé\u2028{1"
ALPHA = ranges_of_pts([ord(c) for c in ALPHA_TXT])
PAY = ranges_of_pts([ord(c) for c in ": \n\rxé\u2028"])
SEP = ranges_of_pts([ord(c) for c in "\n\rx"])

_LD = {}


def line_decoder(instrumented):
    if instrumented not in _LD:
        import httpx._decoders as real

        if not instrumented:
            _LD[instrumented] = real.LineDecoder
        else:
            mod, code = hook.load_file_instrumented(real.__file__, "sxi_httpx_decoders")
            mod.__dict__["__package__"] = "httpx"
            mod.__dict__["__name__"] = "httpx._decoders_sxi"
            exec(code, mod.__dict__)
            _LD[instrumented] = mod.LineDecoder
    return _LD[instrumented]


_JSON_FALSY = ["0", "{}", "[]", '""', "false", "null", "0.0", "-0"]


class JVal(tuple):
    """What json.loads returns in the harness: ("json", <text handed to json.loads>), truthy exactly when the JSON value
    would be (so a helper that filters records by truthiness instead of blankness is observable)."""

    def __bool__(self):
        t = self[1]
        t = t.strip() if hasattr(t, "strip") else t
        for lit in _JSON_FALSY:
            if len(t) == len(lit) and bool(t == lit):
                return False
        return True


class _FakeJson:
    @staticmethod
    def loads(s):
        return JVal(("json", s))


def helpers(instrumented):
    name = ("sxi_" if instrumented else "") + "pyopenapi_gen.core.streaming_helpers"
    m = importlib.import_module(name)
    m.json = _FakeJson  # NDJSON: the string handed to json.loads is the item
    return m


class StubResponse:
    """aiter_lines = the loop of httpx.Response.aiter_lines over httpx's LineDecoder; aiter_text yields the chunks."""

    def __init__(self, chunks, LD):
        self.chunks, self.LD = chunks, LD

    async def aiter_text(self):
        for c in self.chunks:
            yield c

    async def aiter_lines(self):
        decoder = self.LD()
        async for text in self.aiter_text():
            for line in decoder.decode(text):
                yield line
        for line in decoder.flush():
            yield line

    async def aiter_bytes(self):
        raise hook.Unsupported("helper switched to aiter_bytes: byte-level decoding is outside the encoded kernel")

    aiter_raw = aiter_bytes


def collect(agen):
    out = []
    while True:
        co = agen.__anext__()
        try:
            co.send(None)
        except StopIteration as e:
            out.append(e.value)
            continue
        except StopAsyncIteration:
            return out
        raise RuntimeError("async generator suspended")


def run_helper(instrumented, which, chunks):
    h = helpers(instrumented)
    resp = StubResponse(chunks, line_decoder(instrumented))
    if which == "sse":
        return [(e.data, e.event, e.id, e.retry) for e in collect(h.iter_sse(resp))]
    if which == "sse_text":
        return collect(h.iter_sse_events_text(resp))
    if which == "ndjson":
        return [x[1] for x in collect(h.iter_ndjson(resp))]
    raise KeyError(which)


def seq_eq(a, b):
    if type(a) is not type(b) and not (isinstance(a, (str, SymStr)) and isinstance(b, (str, SymStr))):
        return False
    if isinstance(a, (list, tuple)):
        return len(a) == len(b) and all(seq_eq(x, y) for x, y in zip(a, b))
    if isinstance(a, (str, SymStr)):
        return len(a) == len(b) and bool(a == b)
    return a == b


def split_at(text, points):
    out = []
    last = 0
    for p in points:
        out.append(text[last:p])
        last = p
    out.append(text[last:])
    return out


TEMPLATES = {
    # name: list of parts; "P<n>" = symbolic payload of n chars over PAY, "S<n>" = symbolic separator chars over SEP
    "one_data": ["data:", "P2", "S2"],
    "two_data": ["data:", "P1", "S1", "data:", "P1", "S2"],
    "event_id": ["event:", "P1", "S1", "id:", "P1", "S1", "data:", "P1", "S2"],
    "comment": [":", "P1", "S1", "data:", "P1", "S2", "data:", "P1"],
    "two_events": ["data:", "P1", "S2", "data:", "P1", "S1"],
    # two events separated by up to four terminator characters (covers LF LF, CRLF CRLF, CR CR, mixed) and a following event
    "two_events_sep4": ["data:", "P1", "S4", "data:x", "S2"],
    # the same with pure terminator characters (T = LF or CR) and fixed payloads: cheap enough for the quick tier
    "two_events_term4": ["data:x", "T4", "data:x", "T2"],
    # one event with two data lines: the terminator between them (LF, CR, CRLF, or a blank line) and the closing run are
    # pure terminator characters, so a split between the CR and the LF of one line break inside an event is reached
    "two_data_term": ["data:x", "T2", "data:y", "T3"],
}
TERM = ranges_of_pts([10, 13])


class Chunking(Obligation):
    functions = [
        "pyopenapi_gen.core.streaming_helpers:iter_sse",
        "pyopenapi_gen.core.streaming_helpers:_parse_sse_event",
        "pyopenapi_gen.core.streaming_helpers:iter_sse_events_text",
        "pyopenapi_gen.core.streaming_helpers:iter_ndjson",
    ]
    alphabet = ALPHA

    def __init__(self, which, shape, n, max_splits):
        self.which, self.shape, self.n, self.max_splits = which, shape, n, max_splits
        self.name = "chunking/%s/%s/n=%d/splits<=%s" % (which, shape, n, max_splits)
        self.bounds = {"helper": which, "text": shape, "symbolic_chars": n, "split_points": "every subset" if max_splits >= 99 else "<=%d" % max_splits}

    def _text(self, e):
        if self.shape == "free":
            return mk_sym_str(self.n, "t", ALPHA)
        parts = []
        k = 0
        for p in TEMPLATES[self.shape]:
            if p[0] in "PST" and p[1:].isdigit():
                k += 1
                parts.append(mk_sym_str(int(p[1:]), "p%d" % k, {"P": PAY, "S": SEP, "T": TERM}[p[0]]))
            else:
                parts.append(p)
        t = parts[0]
        for p in parts[1:]:
            t = t + p
        return SymStr.lift(t)

    def make_inputs(self, e):
        t = self._text(e)
        n = len(t)
        pts = []
        if self.max_splits >= 99:
            for i in range(1, n):
                if e.choose(2):
                    pts.append(i)
        else:
            k = e.choose(self.max_splits + 1)
            last = 0
            for _ in range(k):
                if last + 1 >= n:
                    break
                p = last + 1 + e.choose(n - 1 - last)
                pts.append(p)
                last = p
        return {"text": t, "points": pts}

    def _run(self, instrumented, inp):
        t, pts = inp["text"], inp["points"]
        whole = explore.call_catching(run_helper, instrumented, self.which, [t] if len(t) else [])
        chunked = explore.call_catching(run_helper, instrumented, self.which, split_at(t, pts) if len(t) else [])
        return [whole, chunked]

    def run_sym(self, inp):
        return self._run(True, inp)

    def run_real(self, inp):
        return self._run(False, inp)

    def prop(self, inp, r):
        whole, chunked = r
        if isinstance(whole, explore.Raised) or isinstance(chunked, explore.Raised):
            return isinstance(whole, explore.Raised) and isinstance(chunked, explore.Raised) and whole == chunked
        return seq_eq(whole, chunked)

    def describe_violation(self, inp, r):
        return "text %r split at %r: unsplit -> %r, chunked -> %r" % (inp["text"], inp["points"], r[0], r[1])


def reference_events(text):
    """Weak reference for canonical input (every line terminated by LF, no CR): one event per blank-line-terminated block
    that has at least one field line; data = data lines joined by LF; comments ignored; last unterminated block delivered.
    Leading whitespace of values is not asserted (value compared after lstrip of spaces)."""
    events = []
    cur = None
    lines = text.split("\n")
    if len(lines) and len(lines[-1]) == 0:
        lines = lines[:-1]
    for ln in lines:
        if len(ln) == 0:
            if cur is not None:
                events.append(cur)
            cur = None
            continue
        if cur is None:
            cur = {"data": [], "event": None, "id": None}
        if ln.startswith(":"):
            continue
        if ":" in ln:
            f, v = ln.split(":", 1)
            v = v.lstrip()
            if bool(f == "data"):
                cur["data"].append(v)
            elif bool(f == "event"):
                cur["event"] = v
            elif bool(f == "id"):
                cur["id"] = v
    if cur is not None:
        events.append(cur)
    out = []
    for ev in events:
        d = ev["data"][0] if ev["data"] else ""
        for x in ev["data"][1:]:
            d = d + "\n" + x
        out.append((d, ev["event"], ev["id"], None))
    return out


CANON = {
    "one_event": ["data:", "P2", "\n\n"],
    "two_lines": ["data:", "P1", "\n", "data:", "P1", "\n\n"],
    "meta": ["event:", "P1", "\n", "id:", "P1", "\n", ":", "P1", "\n", "data:", "P1", "\n\n"],
    "unterminated": ["data:", "P1", "\n\n", "data:", "P1"],
    "empty_data": ["data:", "\n\n", "data:", "P1", "\n\n"],
    # a payload that ends in a newline: the last data line(s) are empty
    "trailing_empty_data": ["data:", "P1", "\n", "data:", "\n\n", "data:", "\n", "data:", "\n\n"],
}
CPAY = ranges_of_pts([ord(c) for c in " xé:\u2028{"])  # payload characters of canonical streams (no CR/LF)


class Reference(Obligation):
    functions = ["pyopenapi_gen.core.streaming_helpers:iter_sse", "pyopenapi_gen.core.streaming_helpers:_parse_sse_event"]
    alphabet = CPAY

    def __init__(self, shape, max_splits):
        self.shape, self.max_splits = shape, max_splits
        self.name = "reference/sse/%s/splits<=%d" % (shape, max_splits)
        self.bounds = {"text": "canonical template %s with symbolic payload chars over ' xé:U+2028{'" % shape, "split_points": "<=%d" % max_splits}

    def make_inputs(self, e):
        parts = []
        k = 0
        for p in CANON[self.shape]:
            if p[0] == "P" and p[1:].isdigit():
                k += 1
                parts.append(mk_sym_str(int(p[1:]), "p%d" % k, CPAY))
            else:
                parts.append(p)
        t = parts[0]
        for p in parts[1:]:
            t = t + p
        t = SymStr.lift(t)
        n = len(t)
        pts = []
        kk = e.choose(self.max_splits + 1)
        last = 0
        for _ in range(kk):
            if last + 1 >= n:
                break
            p = last + 1 + e.choose(n - 1 - last)
            pts.append(p)
            last = p
        return {"text": t, "points": pts}

    def run_sym(self, inp):
        return explore.call_catching(run_helper, True, "sse", split_at(inp["text"], inp["points"]))

    def run_real(self, inp):
        return explore.call_catching(run_helper, False, "sse", split_at(inp["text"], inp["points"]))

    def prop(self, inp, r):
        if isinstance(r, explore.Raised):
            return False
        return seq_eq([tuple(x) for x in r], reference_events(inp["text"]))

    def known(self, inp, r):
        # listed finding: a payload containing a character that str.splitlines() treats as a line boundary but SSE does
        # not (U+2028, also VT/FF/FS/GS/RS/NEL/U+2029) is cut at that character by httpx's aiter_lines
        t = inp["text"]
        if bool(SymStr.lift(t).contains_expr("\u2028")) if is_sym(t) else ("\u2028" in t):
            return "sse-unicode-linebreak-in-payload"
        return None

    def describe_violation(self, inp, r):
        return "canonical stream %r split at %r -> %r, reference %r" % (inp["text"], inp["points"], r, reference_events(inp["text"]))


NDPAY = ranges_of_pts([ord(c) for c in "0 x{}1"])
ND_CANON = {"three_records": ["P1", "\n", "P2", "\n", "P1", "\n"], "unterminated_last": ["P2", "\n", "P1"]}


class NdReference(Obligation):
    """Canonical NDJSON (records separated by LF): every non-blank line is delivered exactly once, in order, as the text
    handed to json.loads, whatever JSON value it denotes (0, {}, [] included)."""

    functions = ["pyopenapi_gen.core.streaming_helpers:iter_ndjson"]
    alphabet = NDPAY

    def __init__(self, shape, max_splits):
        self.shape, self.max_splits = shape, max_splits
        self.name = "reference/ndjson/%s/splits<=%d" % (shape, max_splits)
        self.bounds = {"text": "canonical NDJSON template %s, record characters over '0 x{}1'" % shape, "split_points": "<=%d" % max_splits}

    def make_inputs(self, e):
        parts = []
        k = 0
        for p in ND_CANON[self.shape]:
            if p[0] == "P" and p[1:].isdigit():
                k += 1
                parts.append(mk_sym_str(int(p[1:]), "p%d" % k, NDPAY))
            else:
                parts.append(p)
        t = parts[0]
        for p in parts[1:]:
            t = t + p
        t = SymStr.lift(t)
        n = len(t)
        pts = []
        kk = e.choose(self.max_splits + 1)
        last = 0
        for _ in range(kk):
            if last + 1 >= n:
                break
            p = last + 1 + e.choose(n - 1 - last)
            pts.append(p)
            last = p
        return {"text": t, "points": pts}

    def run_sym(self, inp):
        return explore.call_catching(run_helper, True, "ndjson", split_at(inp["text"], inp["points"]))

    def run_real(self, inp):
        return explore.call_catching(run_helper, False, "ndjson", split_at(inp["text"], inp["points"]))

    def prop(self, inp, r):
        if isinstance(r, explore.Raised):
            return False
        want = []
        for ln in inp["text"].split("\n"):
            st = ln.strip()
            if len(st):
                want.append(st)
        return seq_eq(list(r), want)

    def describe_violation(self, inp, r):
        return "canonical NDJSON %r split at %r -> records %r" % (inp["text"], inp["points"], r)


def mk_ndref(shape, ms):
    return NdReference(shape, ms)


def mk_chunk(which, shape, n, ms):
    return Chunking(which, shape, n, ms)


def mk_ref(shape, ms):
    return Reference(shape, ms)


def specs(tier):
    out = []
    if tier == "quick":
        for which in ("sse", "ndjson"):
            for n in (1, 2, 3, 4):
                out.append((MOD, "mk_chunk", (which, "free", n, 99)))
        out.append((MOD, "mk_chunk", ("sse_text", "free", 3, 99)))
        for shape in ("one_data", "two_data"):
            out.append((MOD, "mk_chunk", ("sse", shape, 0, 1)))
        out.append((MOD, "mk_chunk", ("sse_text", "two_events_term4", 0, 1)))
        out.append((MOD, "mk_chunk", ("sse", "two_events_term4", 0, 1)))
        out.append((MOD, "mk_chunk", ("sse_text", "two_data_term", 0, 1)))
        out.append((MOD, "mk_chunk", ("sse", "two_data_term", 0, 1)))
        for shape in ("one_event", "two_lines", "unterminated", "trailing_empty_data"):
            out.append((MOD, "mk_ref", (shape, 1)))
        out.append((MOD, "mk_ndref", ("three_records", 1)))
    else:
        for which in ("sse", "ndjson", "sse_text"):
            for n in (1, 2, 3, 4, 5):
                out.append((MOD, "mk_chunk", (which, "free", n, 99)))
            out.append((MOD, "mk_chunk", (which, "free", 6, 2)))
        for shape in TEMPLATES:
            out.append((MOD, "mk_chunk", ("sse", shape, 0, 2)))
            out.append((MOD, "mk_chunk", ("sse_text", shape, 0, 1)))
        for shape in CANON:
            out.append((MOD, "mk_ref", (shape, 2)))
        for shape in ND_CANON:
            out.append((MOD, "mk_ndref", (shape, 2)))
    return out


def run(tier, rep, only=None):
    sp = specs(tier)
    if only:
        sp = [s for s in sp if only in explore.build(s).name]
    rep.bounds = {"free_text": "all strings of length <=4 (quick) / <=5, 6 with <=2 splits (thorough) over %r, every subset of split points" % ALPHA_TXT,
                  "templates": "field-name prefixes concrete, payload/separator characters symbolic; <=1 (quick) / <=2 (thorough) split points anywhere",
                  "reference": "canonical LF-terminated templates with symbolic payloads"}
    rep.stubs = ["httpx.Response -> stub: aiter_lines = httpx's loop over the real (instrumented) httpx LineDecoder, aiter_text yields the chunks",
                 "json.loads -> identity marker (the string handed to it is the item)",
                 "byte-level splitting inside a multi-byte character: decided by codecs' incremental decoder inside httpx (C code), outside the claim"]
    rep.assumptions = ["helpers consume the response through aiter_lines/aiter_text (a switch to aiter_bytes/aiter_raw makes the obligation inconclusive)"]
    res = explore.run_all(sp, split=32, slice_s=3.0, log=lambda m: print("[c18]", m, flush=True))
    for s in sp:
        ob = explore.build(s)
        rep.add_symx(res[ob.name], functions=ob.functions, bounds=ob.bounds)


def replay(path):
    import json

    v = json.load(open(path))["violation"]
    name = v["obligation"]
    parts = name.split("/")
    if parts[0] == "chunking":
        ob = Chunking(parts[1], parts[2], 0, 99)
    elif parts[1] == "ndjson":
        ob = NdReference(parts[2], 2)
    else:
        ob = Reference(parts[2], 2)
    r = ob.run_real(v["inputs"])
    ok = bool(ob.prop(v["inputs"], r))
    print("replay %s %r -> %r holds=%s" % (name, v["inputs"], r, ok))
    return 0 if ok else 1
