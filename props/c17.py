"""C17 — Transport applies defaults, per-request headers and auth as documented (engine E1 / symx).

Kernel: the real HttpxTransport.request/_prepare_headers, CompositeAuth, BearerAuth, HeadersAuth, ApiKeyAuth,
OAuth2Auth (instrumented from /repo/src/pyopenapi_gen/core).  `httpx.AsyncClient.request` is a recording stub.
Symbolic: every header/token/key value (strings), the plugin sequence (kind of each of <= N plugins, chosen by
solver-decided `choose`), header names (index into a pool with case variants), API-key location, presence of the
caller's params / cookies / json.  Oracle: the statement's fold (defaults, then per-request, then each plugin in order).
"""
from __future__ import annotations

import importlib

from symx import explore, hook
from symx.core import Engine, SymStr, mk_sym_str, ranges_of_pts
from symx.explore import Obligation

hook.install()
MOD = "props.c17"

NAMES = ["X-A", "x-a", "Authorization", "X-B"]
VAL_ALPHA = ranges_of_pts([ord(c) for c in "ab "])
KINDS = ["bearer", "apikey_header", "apikey_query", "apikey_cookie", "headers", "oauth2", "oauth2_refresh"]


def _mods(instrumented):
    root = "sxi_pyopenapi_gen" if instrumented else "pyopenapi_gen"
    return (
        importlib.import_module(root + ".core.http_transport"),
        importlib.import_module(root + ".core.auth.base"),
        importlib.import_module(root + ".core.auth.plugins"),
    )


def drive(coro):
    try:
        coro.send(None)
    except StopIteration as e:
        return e.value
    raise RuntimeError("coroutine suspended")


class Rec:
    def __init__(self):
        self.calls = []

    async def request(self, method, url, **kw):
        self.calls.append((method, url, kw))

        class R:
            status_code = 200
            text = ""

        return R()


_T = {}


def _transport(tr, auth, bearer, defaults):
    """HttpxTransport.__init__ runs for real (once per process and module) with the path's arguments re-applied through
    the same constructor on a cheap clone: __init__ is re-run with httpx.AsyncClient stubbed, so attribute wiring is the repo's."""
    import httpx

    real = httpx.AsyncClient
    try:
        httpx.AsyncClient = lambda **kw: None  # the client is replaced by the recording stub anyway
        return tr.HttpxTransport(base_url="http://x", auth=auth, bearer_token=bearer, default_headers=defaults)
    finally:
        httpx.AsyncClient = real


def build_and_send(instrumented, cfg):
    """cfg: plain dict (values may be symbolic strings).  Returns the kwargs that reached AsyncClient.request."""
    tr, base, pl = _mods(instrumented)
    plugins = []
    for p in cfg["plugins"]:
        k = p["kind"]
        if k == "bearer":
            plugins.append(pl.BearerAuth(p["v"]))
        elif k == "apikey_header":
            plugins.append(pl.ApiKeyAuth(p["v"], location="header", name=p["name"]))
        elif k == "apikey_query":
            plugins.append(pl.ApiKeyAuth(p["v"], location="query", name=p["name"]))
        elif k == "apikey_cookie":
            plugins.append(pl.ApiKeyAuth(p["v"], location="cookie", name=p["name"]))
        elif k == "headers":
            plugins.append(pl.HeadersAuth({p["name"]: p["v"]}))
        elif k == "oauth2":
            plugins.append(pl.OAuth2Auth(p["v"]))
        elif k == "oauth2_refresh":
            seq = [p["v2"]] + ([p["v3"]] if "v3" in p else [])
            state = {"i": 0}

            async def cb(old, _seq=seq, _st=state):
                r = _seq[min(_st["i"], len(_seq) - 1)]
                _st["i"] += 1
                return r

            plugins.append(pl.OAuth2Auth(p["v"], refresh_callback=cb))
    if cfg["auth_mode"] == "none":
        auth = None
    elif cfg["auth_mode"] == "single" and len(plugins) == 1:
        auth = plugins[0]
    else:
        auth = base.CompositeAuth(*plugins)
    t = _transport(tr, auth, cfg["bearer_token"], cfg["defaults"])
    rec = Rec()
    t._client = rec
    kw = {}
    if cfg["req_headers"] is not None:
        kw["headers"] = cfg["req_headers"]
    for k in ("params", "cookies", "json"):
        if not (isinstance(cfg[k], str) and cfg[k] == "absent"):
            kw[k] = cfg[k]
    drive(t.request("GET", "/p", **kw))
    if len(rec.calls) != 1:
        return ("calls", len(rec.calls))
    m, u, sent = rec.calls[0]
    if "req_headers2" not in cfg:
        return (m, u, _plain(sent))
    # history: a second request on the same transport (and the same plugin objects)
    kw2 = {}
    if cfg["req_headers2"] is not None:
        kw2["headers"] = cfg["req_headers2"]
    drive(t.request("GET", "/p", **kw2))
    if len(rec.calls) != 2:
        return ("calls", len(rec.calls))
    m2, u2, sent2 = rec.calls[1]
    return (m, u, _plain(sent), m2, u2, _plain(sent2))


def _plain(d):
    """kwargs -> nested lists (order-insensitive comparison is done in expected())"""
    out = {}
    for k, v in d.items():
        if isinstance(v, dict):
            out[k] = [(kk, vv) for kk, vv in v.items()]
        else:
            out[k] = v
    return out


def expected(cfg, second=False):
    """The statement's reference fold, written independently of the transport.  second=True: the fold for the second
    request of a history (its own per-request headers; an OAuth2 token refreshed earlier stays refreshed)."""
    headers = []

    def put(lst, name, val):
        for i, (n, _) in enumerate(lst):
            if n == name:
                lst[i] = (n, val)
                return
        lst.append((name, val))

    for n, v in (cfg["defaults"] or {}).items():
        put(headers, n, v)
    for n, v in ((cfg["req_headers2"] if second else cfg["req_headers"]) or {}).items():
        put(headers, n, v)
    params = None if cfg["params"] in ("absent", None) else list(cfg["params"].items())
    cookies = None if cfg["cookies"] in ("absent", None) else list(cfg["cookies"].items())
    if cfg["auth_mode"] != "none":
        for p in cfg["plugins"]:
            k = p["kind"]
            if k == "bearer" or k == "oauth2":
                put(headers, "Authorization", "Bearer " + p["v"])
            elif k == "oauth2_refresh":
                new = p["v2"]
                tok = new if len(new) > 0 else p["v"]
                if second and "v3" in p:
                    tok = p["v3"] if len(p["v3"]) > 0 else tok
                put(headers, "Authorization", "Bearer " + tok)
            elif k == "apikey_header" or k == "headers":
                put(headers, p["name"], p["v"])
            elif k == "apikey_query":
                params = params or []
                put(params, p["name"], p["v"])
            elif k == "apikey_cookie":
                cookies = cookies or []
                put(cookies, p["name"], p["v"])
    elif cfg["bearer_token"] is not None:
        put(headers, "Authorization", "Bearer " + cfg["bearer_token"])
    return headers, params, cookies


def same_items(actual, exp):
    """order-insensitive equality of (name, value) lists; values may be symbolic (comparison forks)"""
    if actual is None or exp is None:
        return (actual is None or actual == []) and (exp is None or exp == [])
    if not isinstance(actual, list) or len(actual) != len(exp):
        return False
    for n, v in exp:
        hit = [vv for nn, vv in actual if nn == n]
        if len(hit) != 1:
            return False
        a = hit[0]
        if len(a) != len(v) or not bool(a == v):
            return False
    return True


class TransportOb(Obligation):
    functions = [
        "pyopenapi_gen.core.http_transport:HttpxTransport.request",
        "pyopenapi_gen.core.http_transport:HttpxTransport._prepare_headers",
        "pyopenapi_gen.core.auth.base:CompositeAuth.authenticate_request",
        "pyopenapi_gen.core.auth.plugins:BearerAuth.authenticate_request",
        "pyopenapi_gen.core.auth.plugins:HeadersAuth.authenticate_request",
        "pyopenapi_gen.core.auth.plugins:ApiKeyAuth.authenticate_request",
        "pyopenapi_gen.core.auth.plugins:OAuth2Auth.authenticate_request",
    ]
    alphabet = VAL_ALPHA

    def __init__(self, nplugins, shape):
        self.n, self.shape = nplugins, shape
        self.name = "transport/plugins=%d/%s" % (nplugins, shape)
        self.bounds = {"plugins": nplugins, "shape": shape, "header_name_pool": NAMES, "value_len": "<=2 over 'ab '"}

    def make_inputs(self, e):
        cnt = [0]

        def val(n=None):
            cnt[0] += 1
            ln = 1 if n is None else n
            return mk_sym_str(ln, "v%d" % cnt[0], VAL_ALPHA)

        def name():
            return NAMES[e.choose(len(NAMES))]

        def hdrs(maxn):
            k = e.choose(maxn + 1)
            if k == 0:
                return None if e.choose(2) else {}
            d = {}
            for _ in range(k):
                d[name()] = val(1)
            return d

        plugins = []
        for i in range(self.n):
            kind = KINDS[e.choose(len(KINDS))]
            p = {"kind": kind, "v": val(1)}
            if kind in ("apikey_header", "headers"):
                p["name"] = name()
            elif kind in ("apikey_query", "apikey_cookie"):
                p["name"] = ["k", "q"][e.choose(2)]
            if kind == "oauth2_refresh":
                p["v2"] = mk_sym_str(e.choose(2), "r%d" % i, VAL_ALPHA)  # "" = callback returns nothing new
            plugins.append(p)
        cfg = {"plugins": plugins}
        cfg["auth_mode"] = "none" if self.n == 0 else ("single" if (self.n == 1 and e.choose(2)) else "composite")
        cfg["bearer_token"] = None
        cfg["params"] = "absent"
        cfg["cookies"] = "absent"
        cfg["json"] = "absent"
        if self.shape == "precedence":  # defaults vs per-request headers vs transport-level bearer token
            cfg["bearer_token"] = val(1) if e.choose(2) else None
            cfg["defaults"] = hdrs(2)
            cfg["req_headers"] = hdrs(2)
        elif self.shape == "plugins":  # every sequence of plugins over one default header
            cfg["defaults"] = {name(): val(1)}
            cfg["req_headers"] = None
            cfg["params"] = {"q": val(1)} if e.choose(2) else None
        elif self.shape == "history":  # two requests on one transport: nothing of the first may leak into the second
            cfg["bearer_token"] = val(1) if e.choose(2) else None
            cfg["defaults"] = hdrs(1)
            cfg["req_headers"] = hdrs(2)
            cfg["req_headers2"] = hdrs(1)
            for p in plugins:
                if p["kind"] == "oauth2_refresh":
                    p["v3"] = mk_sym_str(e.choose(2), "s%d" % cnt[0], VAL_ALPHA)
        else:  # "passthrough": caller's params / cookies / json with every single plugin
            cfg["defaults"] = None
            cfg["req_headers"] = {"X-A": val(1)}
            cfg["params"] = [lambda: "absent", lambda: None, lambda: {"q": val(1)}, lambda: {"z": val(1)}][e.choose(4)]()
            cfg["cookies"] = [lambda: "absent", lambda: None, lambda: {"k": val(1)}][e.choose(3)]()
            # a body that is present but falsy ([] / {} / 0 / False / "") is still the caller's body
            cfg["json"] = [lambda: "absent", lambda: {"b": val(1)}, lambda: [], lambda: {}, lambda: 0, lambda: False, lambda: ""][e.choose(7)]()
            cfg["bearer_token"] = val(1) if e.choose(2) else None
        return {"cfg": cfg}

    def run_sym(self, inp):
        return explore.call_catching(build_and_send, True, inp["cfg"])

    def run_real(self, inp):
        return explore.call_catching(build_and_send, False, inp["cfg"])

    def prop(self, inp, r):
        cfg = inp["cfg"]
        if isinstance(r, explore.Raised) or r[0] == "calls":
            return False
        if len(r) == 6:
            if not self._one(cfg, r[3:], True):
                return False
            r = r[:3]
        return self._one(cfg, r, False)

    def _one(self, cfg, r, second):
        m, u, sent = r
        if m != "GET" or u != "/p":
            return False
        eh, ep, ec = expected(cfg, second)
        if second:
            ep = ep if cfg["params"] in ("absent", None) else [x for x in ep if x[0] not in cfg["params"]] or None
        if not same_items(sent.get("headers"), eh):
            return False
        if not same_items(sent.get("params"), ep):
            return False
        if not same_items(sent.get("cookies"), ec):
            return False
        if not (isinstance(cfg["json"], str) and cfg["json"] == "absent") and not second:
            j = sent.get("json")
            if isinstance(cfg["json"], dict) and cfg["json"]:
                if not (isinstance(j, list) and same_items(j, list(cfg["json"].items()))):
                    return False
            elif "json" not in sent or j != _plain({"json": cfg["json"]})["json"] or type(j) is not type(_plain({"json": cfg["json"]})["json"]):
                return False
        elif "json" in sent:
            return False
        return True

    def describe_violation(self, inp, r):
        eh, ep, ec = expected(inp["cfg"])
        extra = ""
        if "req_headers2" in inp["cfg"]:
            extra = "; second request expected headers=%r" % (expected(inp["cfg"], True)[0],)
        return "sent %r, expected headers=%r params=%r cookies=%r%s" % (r, eh, ep, ec, extra)


def mk(n, shape):
    return TransportOb(n, shape)


def run(tier, rep, only=None):
    if tier == "quick":
        specs = [(MOD, "mk", (0, "precedence")), (MOD, "mk", (1, "passthrough")),
                 (MOD, "mk", (0, "passthrough")), (MOD, "mk", (1, "plugins")), (MOD, "mk", (2, "plugins")),
                 (MOD, "mk", (0, "history")), (MOD, "mk", (1, "history"))]
    else:
        specs = [(MOD, "mk", (0, "precedence")), (MOD, "mk", (1, "precedence")),
                 (MOD, "mk", (0, "passthrough")), (MOD, "mk", (1, "passthrough")), (MOD, "mk", (2, "passthrough")),
                 (MOD, "mk", (1, "plugins")), (MOD, "mk", (2, "plugins")), (MOD, "mk", (3, "plugins")),
                 (MOD, "mk", (0, "history")), (MOD, "mk", (1, "history")), (MOD, "mk", (2, "history"))]
    if only:
        specs = [s for s in specs if only in explore.build(s).name]
    rep.bounds = {"plugins": "<=2 (quick) / <=3 (thorough), every kind and order", "header_names": NAMES,
                  "values": "symbolic strings, length 1 (0-1 for the refreshed token) over 'ab '", "shapes": "precedence (defaults/request headers/bearer token), plugins (every plugin sequence), passthrough (caller params/cookies/json), history (two requests on one transport: the second must equal its own fold; a refreshed OAuth2 token stays refreshed)", "caller_args": "params absent/None/{q}/{z}; cookies absent/None/{k}; json absent/{b}"}
    rep.stubs = ["httpx.AsyncClient.request -> recording stub (httpx's own header case-folding lies below it: outside the claim)",
                 "OAuth2 refresh callback -> returns a symbolic token or ''"]
    rep.assumptions = ["the reference fold in props/c17.py:expected() is the statement's meaning of 'per-request over defaults, then each plugin in order'"]
    res = explore.run_all(specs, split=64)
    for s in specs:
        ob = explore.build(s)
        rep.add_symx(res[ob.name], functions=ob.functions, bounds=ob.bounds)


def replay(path):
    import json

    v = json.load(open(path))["violation"]
    _, n, shape = v["obligation"].split("/")
    ob = TransportOb(int(n.split("=")[1]), shape)
    r = ob.run_real(v["inputs"])
    ok = bool(ob.prop(v["inputs"], r))
    print("replay %s cfg=%r -> %r holds=%s" % (v["obligation"], v["inputs"], r, ok))
    return 0 if ok else 1
