"""C14, generation half of the discriminator clause — the mapping a generated union alias carries must lead to the variant
models under the names they were actually emitted with (symx).

Kernel: two object schemas with SYMBOLIC names and a union `Pet = oneOf[..]` with `discriminator.mapping` {cat: #0, dog: #1};
the REAL ModelsEmitter name de-collision assigns class names / module stems (file writing stubbed), then the REAL
ModelVisitor / AliasGenerator / PythonConstructRenderer.render_alias renders the alias module.  The rendered (symbolic)
text is lexed (lib/pysig) and `get_mapping` is read on token level.
P: for every mapping entry the statement `from .<module> import <Class>` inside get_mapping names exactly the module stem and
class name the emitter assigned to that variant, the returned dict binds the discriminator value to that class, and the
alias itself is `Annotated[Union[<Class0>, <Class1>], PetDiscriminator()]` over the same class names.  (At run time
`_structure_union` calls get_mapping: a wrong module or class there makes every payload of the union undecodable.)
"""
from __future__ import annotations

import json
from importlib import import_module

import pysig
from props import c02, c15
from symx import explore, hook
from symx.core import SymStr, is_sym, mk_sym_str, ranges_of_pts, s_not
from symx.explore import Obligation, Raised, call_catching

hook.install()
MOD = "props.c14map"
ALPHA_TXT = "aAbB2_-"
ALPHA = ranges_of_pts([ord(c) for c in ALPHA_TXT])
NAME_TOKENS = ["Cat2", "HTTPCat", "cat_v", "OAuth2Cat", "catKind", "Cat_2", "CAT", "cat"]


def k_alias(P, n0, n1):
    mv = import_module(P.__name__ + ".visit.model.model_visitor")
    D = hook.SDict if c02._inst(P) else dict
    S = P.IRSchema
    s0 = S(name=n0, type="object", properties={"kind": S(type="string"), "lives": S(type="integer")}, required=["kind"])
    s1 = S(name=n1, type="object", properties={"kind": S(type="string"), "bark": S(type="integer")}, required=["kind"])
    ref = "#/components/schemas/"
    mapping = D()
    mapping["cat"] = ref + n0
    mapping["dog"] = ref + n1
    pet = S(name="Pet", one_of=[s0, s1], discriminator=P.ir.IRDiscriminator(property_name="kind", mapping=mapping))
    schemas = D()
    schemas[n0] = s0
    schemas[n1] = s1
    schemas["Pet"] = pet
    if len(schemas) != 3:
        return None
    c02._assign_names(P, schemas)
    from props import c12

    c12._model_relative_path(P)  # relative import path of a module with a symbolic stem: component arithmetic (lib/memfs)
    ctx = c15._ctx(P, "models/pet.py")
    code = mv.ModelVisitor(schemas=schemas).visit(pet, ctx)
    return (ctx.render_imports() + "\n\n" + code, [(s0.generation_name, s0.final_module_stem), (s1.generation_name, s1.final_module_stem)])


def k_enum(P, n0, n1, many):
    """the loader's own pipeline for discriminator enums on a document whose two variant schemas have SYMBOLIC names and a
    plain-string discriminator property: build_schemas -> identify_discriminator_properties -> extract_inline_enums ->
    collect_unified_enums.  -> (values of each unified enum, per variant: the name its discriminator property refers to)"""
    ext = import_module(P.__name__ + ".core.loader.schemas")
    col = import_module(P.__name__ + ".core.parsing.transformers.discriminator_enum_collector")
    D = hook.SDict if c02._inst(P) else dict
    ref = "#/components/schemas/"
    st, it = {"type": "string"}, {"type": "integer"}
    mapping = D()
    mapping["cat"] = ref + n0
    if many:
        mapping["kitten"] = ref + n0
    mapping["dog"] = ref + n1
    raw = D()
    raw[n0] = hook.to_sx({"type": "object", "required": ["kind"], "properties": {"kind": st, "lives": it}}) if c02._inst(P) else {"type": "object", "required": ["kind"], "properties": {"kind": st, "lives": it}}
    raw[n1] = hook.to_sx({"type": "object", "required": ["kind"], "properties": {"kind": st, "bark": it}}) if c02._inst(P) else {"type": "object", "required": ["kind"], "properties": {"kind": st, "bark": it}}
    raw["Pet"] = D(oneOf=[D({"$ref": ref + n0}), D({"$ref": ref + n1})], discriminator=D(propertyName="kind", mapping=mapping))
    if len(raw) != 3:
        return None
    ctx = ext.build_schemas(raw, D(schemas=raw))
    props = col.DiscriminatorEnumCollector(ctx.parsed_schemas).identify_discriminator_properties()
    schemas = ext.extract_inline_enums(ctx.parsed_schemas, props)
    unified = col.DiscriminatorEnumCollector(schemas).collect_unified_enums()
    enums = [(k, [v for _m, v in u.values]) for k, u in unified.items()]
    san = P.core.utils.NameSanitizer.sanitize_class_name
    refs = []
    for nm in (n0, n1):
        hit = [v for k, v in schemas.items() if c02._eqs(k, nm) or c02._eqs(k, san(nm))]
        kind = hit[0].properties.get("kind") if len(hit) == 1 and hit[0].properties else None
        refs.append(kind.name if kind is not None else None)
    return (enums, refs)


def _eq(a, b):
    a = SymStr(a) if isinstance(a, tuple) else SymStr.lift(a)
    b = SymStr(b) if isinstance(b, tuple) else SymStr.lift(b)
    return len(a) == len(b) and bool(a == b)


def read_mapping(text):
    """-> (imports [(module chars, class chars)], returned dict [(value chars, class chars)], alias union member names) or (None, why)"""
    toks, err = pysig.tokens(text)
    if toks is None:
        return None, "the alias module does not lex: %s" % err
    # locate `def get_mapping`
    start = None
    for i in range(len(toks) - 1):
        if toks[i].is_kw("def") and toks[i + 1].kind == "NAME" and pysig.show(toks[i + 1].text) == "get_mapping":
            start = i
            break
    if start is None:
        return None, "no get_mapping in the alias module"
    imports, entries = [], []
    i = start
    while i < len(toks):
        t = toks[i]
        if t.is_kw("from") and i + 4 < len(toks) and toks[i + 1].is_op(".") and toks[i + 2].kind == "NAME" and toks[i + 3].is_kw("import") and toks[i + 4].kind == "NAME":
            imports.append((toks[i + 2].text, toks[i + 4].text))
            i += 5
            continue
        if t.is_kw("return"):
            j = i + 1
            while j + 2 < len(toks) and not toks[j].is_op("}"):
                if toks[j].kind == "STR" and toks[j + 1].is_op(":") and toks[j + 2].kind == "NAME":
                    entries.append((toks[j].text, toks[j + 2].text))
                    j += 3
                else:
                    j += 1
            break
        i += 1
    # the alias line:  Pet : TypeAlias = Annotated [ Union [ A , B ] , PetDiscriminator ( ) ]
    members = None
    for i in range(len(toks) - 3):
        if toks[i].kind == "NAME" and pysig.show(toks[i].text) == "Union" and toks[i + 1].is_op("[") and i > 0 and toks[i - 1].is_op("["):
            members = []
            j = i + 2
            while j < len(toks) and not toks[j].is_op("]"):
                if toks[j].kind == "NAME":
                    members.append(toks[j].text)
                j += 1
    return (imports, entries, members), None


class MappingTargets(Obligation):
    functions = ["pyopenapi_gen.core.writers.python_construct_renderer:PythonConstructRenderer.render_alias", "pyopenapi_gen.visit.model.alias_generator:AliasGenerator.generate",
                 "pyopenapi_gen.emitters.models_emitter:ModelsEmitter.emit", "pyopenapi_gen.core.utils:NameSanitizer.sanitize_class_name", "pyopenapi_gen.core.utils:NameSanitizer.sanitize_module_name"]
    alphabet = ALPHA
    timeout_ms = 30000

    def __init__(self, lens, tokens=False):
        self.lens, self.tokens = tuple(lens), tokens
        self.name = "mapping_targets/" + ("tokens" if tokens else "lens=%s" % "x".join(map(str, lens)))
        self.bounds = {"variant_schema_names": ("first from %r, second symbolic of length %d" % (NAME_TOKENS, lens[1])) if tokens else "symbolic, lengths %r" % (list(lens),), "alphabet": ALPHA_TXT,
                       "union": "oneOf of two object schemas, discriminator `kind`, mapping {cat, dog} by $ref"}

    def make_inputs(self, e):
        if self.tokens:
            n0 = NAME_TOKENS[e.choose(len(NAME_TOKENS), "tok")]
        else:
            n0 = mk_sym_str(self.lens[0], "n0", ALPHA)
        n1 = mk_sym_str(self.lens[1], "n1", ALPHA)
        if len(n0) == len(n1):
            e.assume(s_not(SymStr.lift(n0) == n1))
        return {"n0": n0, "n1": n1}

    def _run(self, P, inp):
        r = call_catching(k_alias, P, inp["n0"], inp["n1"])
        if r is None or isinstance(r, Raised):
            return r
        text, assigned = r
        view, why = read_mapping(text)  # the text itself differs between the runs by formatting (Black is stubbed under symx)
        return (view, why, assigned)

    def run_sym(self, inp):
        return self._run(c02._I(), inp)

    def run_real(self, inp):
        return self._run(c02._R(), inp)

    def normalise(self, r):
        def n(x):
            if isinstance(x, (list, tuple)) and not (isinstance(x, tuple) and all(isinstance(c, int) or is_sym(c) for c in x) and len(x) > 0 and not isinstance(x[0], (tuple, list, str))):
                return [n(v) for v in x]
            if x is None or isinstance(x, (int, bool)):
                return x
            return c02._s(SymStr(x)) if isinstance(x, tuple) else c02._s(x)

        return n(r) if isinstance(r, tuple) else r

    def verdict(self, inp, r):
        if r is None:
            return True, ""
        if isinstance(r, Raised):
            return True, ""  # generation failed visibly
        view, why, assigned = r
        if view is None:
            return False, why
        imports, entries, members = view
        if len(imports) != 2 or len(entries) != 2:
            return False, "get_mapping has %d imports and %d entries for a mapping with two values" % (len(imports), len(entries))
        for k, (cls, stem) in enumerate(assigned):
            if cls is None or stem is None:
                return False, "variant #%d was not named by the emitter" % k
            mod_i, cls_i = imports[k]
            if not (_eq(mod_i, stem) and _eq(cls_i, cls)):
                return False, "mapping value #%d imports `from .%s import %s`; the variant's model is class %s in module %s" % (
                    k, pysig.show(mod_i) if not is_sym(mod_i) else "?", pysig.show(cls_i) if not is_sym(cls_i) else "?", c02._s(cls), c02._s(stem))
            val, cls_e = entries[k]
            if not (_eq(val, ["cat", "dog"][k]) and _eq(cls_e, cls)):
                return False, "mapping value #%d is bound to another class than the variant's model %s" % (k, c02._s(cls))
        if members is None or len(members) != 2 or not all(_eq(m, a[0]) for m, a in zip(members, assigned)):
            return False, "the alias is not Annotated[Union[<variant classes>], ...]"
        return True, ""

    def prop(self, inp, r):
        return self.verdict(inp, r)[0]

    def describe_violation(self, inp, r):
        return "variant schemas named %r / %r: %s" % (c02._s(inp["n0"]), c02._s(inp["n1"]), self.verdict(inp, r)[1])


class UnifiedEnum(Obligation):
    """The enum that types the variants' discriminator field has exactly the values of the mapping (a missing value makes
    the payloads carrying it undecodable; the property says the mapped variant is decoded)."""

    functions = ["pyopenapi_gen.core.parsing.transformers.discriminator_enum_collector:DiscriminatorEnumCollector._process_discriminated_union",
                 "pyopenapi_gen.core.parsing.transformers.discriminator_enum_collector:DiscriminatorEnumCollector.identify_discriminator_properties",
                 "pyopenapi_gen.core.parsing.transformers.inline_enum_extractor:extract_inline_enums", "pyopenapi_gen.core.loader.schemas.extractor:build_schemas"]
    alphabet = ALPHA
    timeout_ms = 30000

    def __init__(self, lens, many=False, tokens=False):
        self.lens, self.many, self.tokens = tuple(lens), many, tokens
        self.name = "unified_enum/%s%s" % ("tokens" if tokens else "lens=%s" % "x".join(map(str, lens)), "/many_to_one" if many else "")
        self.bounds = {"variant_schema_names": ("first from %r, second symbolic of length %d" % (NAME_TOKENS, lens[1])) if tokens else "symbolic, lengths %r" % (list(lens),), "alphabet": ALPHA_TXT,
                       "mapping": "{cat: #0, kitten: #0, dog: #1}" if many else "{cat: #0, dog: #1}", "discriminator property": "plain string in both variants"}

    def make_inputs(self, e):
        n0 = NAME_TOKENS[e.choose(len(NAME_TOKENS), "tok")] if self.tokens else mk_sym_str(self.lens[0], "n0", ALPHA)
        n1 = mk_sym_str(self.lens[1], "n1", ALPHA)
        san = c02._I().core.utils.NameSanitizer.sanitize_class_name
        for x in (n0, n1):
            if len(x) == 0:
                e.assume(False)
        if len(n0) == len(n1):
            e.assume(s_not(SymStr.lift(n0) == n1))
        a, b = san(n0), san(n1)
        if len(a) == len(b):
            e.assume(s_not(SymStr.lift(a) == b))  # name collisions are C20's subject
        for x in (a, b):
            if len(x) == 3:
                e.assume(s_not(SymStr.lift(x) == "Pet"))
        return {"n0": n0, "n1": n1}

    def run_sym(self, inp):
        return call_catching(k_enum, c02._I(), inp["n0"], inp["n1"], self.many)

    def run_real(self, inp):
        return call_catching(k_enum, c02._R(), inp["n0"], inp["n1"], self.many)

    def normalise(self, r):
        if isinstance(r, tuple):
            return ([(c02._s(k), [c02._s(v) for v in vs]) for k, vs in r[0]], [c02._s(x) if x is not None else None for x in r[1]])
        return r

    def verdict(self, inp, r):
        if r is None or isinstance(r, Raised):
            return True, ""
        enums, refs = r
        want = ["cat", "kitten", "dog"] if self.many else ["cat", "dog"]
        if len(enums) != 1:
            return False, "%d unified discriminator enums for one discriminated union" % len(enums)
        name, values = enums[0]
        got = sorted(c02._s(v) for v in values)
        if got != sorted(want):
            return False, "the unified discriminator enum %s has the values %r; the mapping has %r" % (c02._s(name), got, sorted(want))
        for k, x in enumerate(refs):
            if x is None or not _eq(x, name):
                return False, "variant #%d's discriminator property refers to %r, not to the unified enum %s" % (k, c02._s(x) if x is not None else None, c02._s(name))
        return True, ""

    def prop(self, inp, r):
        return self.verdict(inp, r)[0]

    def describe_violation(self, inp, r):
        return "variant schemas named %r / %r: %s" % (c02._s(inp["n0"]), c02._s(inp["n1"]), self.verdict(inp, r)[1])


def mk(lens, tokens=False):
    return MappingTargets(lens, tokens)


def mk_enum(lens, many=False, tokens=False):
    return UnifiedEnum(lens, many, tokens)


def specs(tier):
    q = tier == "quick"
    out = [(MOD, "mk", ((1, 1),)), (MOD, "mk", ((0, 1), True)), (MOD, "mk_enum", ((1, 1),)), (MOD, "mk_enum", ((2, 1), True)), (MOD, "mk_enum", ((0, 1), False, True))]
    if not q:
        out += [(MOD, "mk", ((2, 1),)), (MOD, "mk", ((2, 2),)), (MOD, "mk", ((3, 1),)), (MOD, "mk", ((0, 2), True)), (MOD, "mk_enum", ((2, 2),)), (MOD, "mk_enum", ((3, 1), True)), (MOD, "mk_enum", ((0, 2), True, True))]
    else:
        out += [(MOD, "mk", ((2, 1),))]
    return out


def replay_ob(v):
    parts = v["obligation"].split("/")
    if parts[0] == "unified_enum":
        many = parts[-1] == "many_to_one"
        if parts[1] == "tokens":
            return UnifiedEnum((0, len(v["inputs"]["n1"])), many, True)
        return UnifiedEnum([int(x) for x in parts[1].split("=")[1].split("x")], many)
    if parts[1] == "tokens":
        return MappingTargets((0, len(v["inputs"]["n1"])), True)
    return MappingTargets([int(x) for x in parts[1].split("=")[1].split("x")])
