"""C13 — Endpoint clients, their Protocols and their mocks have identical surfaces (engine E1 / symx; routing half).

Decided here: for every tag group the operations given to the endpoint class (and to its Protocol, which is emitted from
the same list by emit_endpoint_client_class) are exactly the operations given to the mock class; mock class / module names
are Mock<Class> / mock_<module> of the endpoint client; MockAPIClient is built from exactly APIClient's tag tuples.
Real code executed: EndpointsEmitter.emit, MocksEmitter.emit/_group_operations_by_tag, ClientVisitor.visit (rendering,
file I/O and pathlib are recording stubs).  Tags are symbolic strings, tag-assignment shapes are a bounded family.

Not decided by this family (see DESIGN.md): parameter-by-parameter signature equality of the three renderings.
"""
from __future__ import annotations

import json
from importlib import import_module

from props import c07
from symx import explore, hook
from symx.core import is_sym, mk_sym_str
from symx.explore import Obligation, Raised, call_catching

hook.install()
MOD = "props.c13"


class _MockPath(c07._FakePath):
    def mkdir(self, **k):
        pass

    def __truediv__(self, o):
        return _MockPath(*(self.parts + [o]))


class _EV:
    def __init__(self):
        self.classes = []

    def generate_endpoint_mock_class(self, tag, ops, ctx):
        self.classes.append((ctx.current, tag, list(ops)))
        return "M"


class _CV:
    def __init__(self):
        self.tuples = None

    def generate_client_mock_class(self, spec, ctx, tag_tuples):
        self.tuples = list(tag_tuples)
        return "MC"


def k_surfaces(P, tagsets):
    groups, written, tuples = c07.k_routing(P, tagsets)
    me = import_module(P.__name__ + ".emitters.mocks_emitter")
    ops = [P.IROperation(operation_id="op%d" % i, method=P.HTTPMethod.GET, path="/p%d" % i, summary=None, description=None,
                         parameters=[], request_body=None, responses=[], tags=list(t)) for i, t in enumerate(tagsets)]
    spec = P.IRSpec(title="t", version="1", schemas={}, operations=ops, servers=[])
    em = me.MocksEmitter.__new__(me.MocksEmitter)
    em.endpoint_visitor = _EV()
    em.client_visitor = _CV()
    em.context = c07._Ctx()
    saved = me.Path
    me.Path = lambda s: _MockPath(s)
    try:
        em.emit(spec, "/out")
    finally:
        me.Path = saved
    names = P.core.utils.NameSanitizer
    mock_groups = []
    for cur, tag, gops in em.endpoint_visitor.classes:
        mock_groups.append((cur, names.sanitize_class_name(tag) + "Client", names.sanitize_module_name(tag), sorted(set(ops.index(o) for o in gops))))
    ep_groups = [(f, c, m, sorted(set(o))) for (f, o), (c, m) in zip(groups, written)]
    mock_tuples = [(c, m) for _, c, m in (em.client_visitor.tuples or [])]
    return (ep_groups, mock_groups, tuples, mock_tuples)


def _eq(a, b):
    return len(a) == len(b) and bool(a == b)


class Surfaces(Obligation):
    functions = ["pyopenapi_gen.emitters.mocks_emitter:MocksEmitter.emit", "pyopenapi_gen.emitters.mocks_emitter:MocksEmitter._group_operations_by_tag",
                 "pyopenapi_gen.emitters.endpoints_emitter:EndpointsEmitter.emit", "pyopenapi_gen.visit.client_visitor:ClientVisitor.visit"]
    alphabet = c07.TAG_ALPHA

    def __init__(self, shape, lens):
        self.shape, self.lens = tuple(shape), tuple(lens)
        self.name = "surfaces/ops=%s/lens=%s" % ("+".join(map(str, shape)), "x".join(map(str, lens)))
        self.bounds = {"tags_per_operation": list(shape), "tag_lengths": list(lens), "alphabet": "aAbB1-_ .é中"}

    def make_inputs(self, e):
        return {"tag%d" % i: mk_sym_str(n, "tag%d" % i, c07.TAG_ALPHA) for i, n in enumerate(self.lens)}

    def _tagsets(self, inp):
        tags = [inp["tag%d" % i] for i in range(len(self.lens))]
        out, k = [], 0
        for c in self.shape:
            out.append(tags[k:k + c])
            k += c
        return out

    def run_sym(self, inp):
        return call_catching(k_surfaces, _I(), self._tagsets(inp))

    def run_real(self, inp):
        return call_catching(k_surfaces, _R(), self._tagsets(inp))

    def normalise(self, r):
        if not isinstance(r, tuple):
            return r
        s = c07._simp
        ep, mk, t1, t2 = r
        return ([(s(c07._file_text(f)), s(c), s(m), o) for f, c, m, o in ep], [(s(c07._file_text(f)), s(c), s(m), o) for f, c, m, o in mk],
                sorted((s(a), s(b)) for a, b in t1), sorted((s(a), s(b)) for a, b in t2))

    def prop(self, inp, r):
        if isinstance(r, Raised):
            return True
        ep, mk, tuples, mock_tuples = r
        # mock files must not overwrite one another
        if not c07.all_distinct([c07._file_text(f) for f, _, _, _ in mk]):
            return False
        if len(ep) != len(mk):
            return False
        # every endpoint client has a mock of the same (class, module) carrying exactly the same operations
        for _, c, m, ops in ep:
            hit = [g for g in mk if _eq(g[1], c) and _eq(g[2], m)]
            if len(hit) != 1 or hit[0][3] != ops:
                return False
        # MockAPIClient is assembled from exactly APIClient's tag tuples
        if len(tuples) != len(mock_tuples):
            return False
        for c, m in tuples:
            if not any(_eq(c, c2) and _eq(m, m2) for c2, m2 in mock_tuples):
                return False
        return True

    def known(self, inp, r):
        return None

    def describe_violation(self, inp, r):
        n = self.normalise(r)
        return "tags %r: endpoint groups %r vs mock groups %r; APIClient tuples %r vs MockAPIClient tuples %r" % (
            self._tagsets(inp), n[0] if isinstance(n, tuple) else n, n[1] if isinstance(n, tuple) else None,
            n[2] if isinstance(n, tuple) else None, n[3] if isinstance(n, tuple) else None)


def _I():
    return c07._I()


def _R():
    return c07._R()


def mk(shape, lens):
    return Surfaces(shape, lens)


class SurfacesTokens(Surfaces):
    """Surfaces with the tags solver-chosen from spellings that differ in case, separators and word segmentation."""

    def __init__(self, shape):
        Surfaces.__init__(self, shape, (1,) * sum(shape))
        self.name = "surfaces_tokens/ops=%s" % "+".join(map(str, shape))
        self.bounds = {"tags_per_operation": list(shape), "tags": "every tuple over %r" % (c07.TAG_TOKENS,)}

    def make_inputs(self, e):
        return {"tag%d" % i: c07.TAG_TOKENS[e.choose(len(c07.TAG_TOKENS), "tok%d" % i)] for i in range(len(self.lens))}


def mk_tokens(shape):
    return SurfacesTokens(shape)


def specs(tier):
    q = tier == "quick"
    out = []
    for shape, lenss in [((1, 1), [(1, 1), (2, 1), (2, 2)] if q else [(1, 1), (2, 1), (2, 2), (3, 2)]),
                         ((2,), [(1, 1)] if q else [(1, 1), (2, 1), (2, 2)]),
                         ((1, 0), [(1,), (2,)] if q else [(1,), (2,), (3,)]),
                         ((2, 1), [(1, 1, 1)] if q else [(1, 1, 1), (2, 1, 1)]),
                         ((1, 1, 1), [(1, 1, 1)] if q else [(1, 1, 1), (2, 1, 1)])]:
        for lens in lenss:
            out.append((MOD, "mk", (shape, lens)))
    out.append((MOD, "mk_tokens", ((1, 1),)))
    out.append((MOD, "mk_tokens", ((2,),)))
    return out


def run(tier, rep, only=None):
    sp = specs(tier)
    if only:
        sp = [s for s in sp if only in explore.build(s).name]
    rep.bounds = {"operations": "1-3", "tags_per_operation": "0-2", "tag_lengths": "<=2 quick / <=3 thorough", "alphabet": "aAbB1-_ .é中"}
    rep.stubs = ["EndpointVisitor / ClientVisitor rendering methods, RenderContext, FileManager, pathlib.Path -> recording stubs"]
    rep.assumptions = ["the Protocol of a tag is emitted from the same operation list as its client (emit_endpoint_client_class), so only client vs mock routing can differ",
                       "signature-by-signature equality of the three renderings is NOT decided here"]
    from props import c13sig

    sp2 = c13sig.specs(tier)
    if only:
        sp2 = [s for s in sp2 if only in explore.build(s).name]
    sp = sp + sp2
    res = explore.run_all(sp, log=lambda m: print("[c13]", m, flush=True))
    for spec in sp:
        ob = explore.build(spec)
        rep.add_symx(res[ob.name], functions=ob.functions, bounds=ob.bounds)


def replay(path):
    v = json.load(open(path))["violation"]
    if v["obligation"].startswith("sig/"):
        from props import c13sig

        ob = c13sig.replay_ob(v)
        r = ob.run_real(v["inputs"])
        ok = bool(ob.prop(v["inputs"], r))
        print("replay %s inputs=%r -> holds=%s%s" % (v["obligation"], v["inputs"], ok, "" if ok else " :: " + ob.describe_violation(v["inputs"], r)[:1500]))
        return 0 if ok else 1
    parts = v["obligation"].split("/")
    shape = tuple(int(x) for x in parts[1].split("=")[1].split("+"))
    lens = [len(v["inputs"][k]) for k in sorted(v["inputs"])]
    ob = SurfacesTokens(shape) if parts[0] == "surfaces_tokens" else Surfaces(shape, lens)
    r = ob.run_real(v["inputs"])
    ok = bool(ob.prop(v["inputs"], r))
    print("replay %s inputs=%r -> %r holds=%s" % (v["obligation"], v["inputs"], ob.normalise(r), ok))
    return 0 if ok else 1
