"""C06 — Non-2xx responses always raise a status-carrying, class-correct error.

Engine: symx (E1).  The client package is generated from the current /repo tree by the real generator and then
loaded twice: instrumented (symbolic status flows through HttpxTransport.request and the generated
`match response.status_code`) and plain (path-witness validation / counterexample replay).
DESIGN.md planned CrossHair here; measured: the f-string in HTTPError.__init__ on a symbolic int keeps CrossHair
from ever reaching "Confirmed" (int->str in z3), while symx models it with a linear digit constraint.
"""
from __future__ import annotations

import importlib
import os
import sys

import gen
from symx import explore, hook
from symx.core import mk_sym_int
from symx.explore import Obligation

MOD = "props.c06"
PKG = "cl06"

ITEM = {"type": "object", "required": ["id"], "properties": {"id": {"type": "integer"}, "name": {"type": "string"}}}
ERR = {"type": "object", "properties": {"msg": {"type": "string"}}}
BODY = {"id": 1, "name": "n", "msg": "m"}


def spec():
    ok = gen.json_resp("Item")
    return gen.base_spec(
        paths={
            "/a": {"get": {"operationId": "only2xx", "responses": {"200": ok}}},
            "/b": {"get": {"operationId": "declared_errors", "responses": {"200": ok, "404": {"description": "nf"}, "500": {"description": "boom"}}}},
            "/c": {"get": {"operationId": "default_nocontent", "responses": {"200": ok, "default": {"description": "err"}}}},
            "/d": {"get": {"operationId": "default_content", "responses": {"200": ok, "default": gen.json_resp("Err", desc="err")}}},
            "/e": {"delete": {"operationId": "no_content", "responses": {"204": {"description": "gone"}}}},
            "/h": {"get": {"operationId": "declared_unregistered", "responses": {"200": ok, "499": {"description": "client closed"}, "520": {"description": "origin error"}, "599": {"description": "timeout"}}}},
            "/s": {"get": {"operationId": "stream_events", "responses": {"200": {"description": "ok", "content": {"text/event-stream": {"schema": {"type": "string"}}}},
                                                                         "404": {"description": "nf"}, "503": {"description": "unavailable"}}}},
            "/t": {"get": {"operationId": "stream_bytes", "responses": {"200": {"description": "ok", "content": {"application/octet-stream": {"schema": {"type": "string", "format": "binary"}}}},
                                                                        "429": {"description": "slow down"}, "default": {"description": "err"}}}},
            "/g": {"post": {"operationId": "two_success", "responses": {"200": ok, "201": gen.json_resp("Err"), "202": {"description": "acc"}, "409": {"description": "conflict"}, "503": {"description": "unavailable"}}}},
        },
        schemas={"Item": ITEM, "Err": ERR},
    )


def spec_redirect():
    ok = gen.json_resp("Item")
    return gen.base_spec(
        paths={"/f": {"get": {"operationId": "redirect_declared", "responses": {"200": ok, "302": {"description": "moved"}, "101": {"description": "switch"}, "418": {"description": "teapot"}}}}},
        schemas={"Item": ITEM},
    )


SPECS = {"cl06": spec, "cl06r": spec_redirect}
OP_PKG = {"redirect_declared": "cl06r"}
OPS = ["only2xx", "declared_unregistered", "declared_errors", "default_nocontent", "default_content", "no_content", "redirect_declared", "two_success",
       "stream_events", "stream_bytes"]


def root_dir():
    return gen.workdir("c06")


class Resp:
    """Stand-in for httpx.Response: status (symbolic), text/content (empty or not), and httpx's status predicates."""

    def __init__(self, status, empty=False):
        self.status_code = status
        self.text = "" if empty else "body"
        self.content = b"" if empty else b"{}"
        self.headers = {"content-type": "application/json"}

    def json(self):
        return dict(BODY)

    async def aiter_lines(self):
        return
        yield ""  # pragma: no cover

    async def aiter_bytes(self):
        return
        yield b""  # pragma: no cover

    aiter_text = aiter_lines

    # httpx.Response semantics (httpx/_models.py): is_informational 1xx, is_success 2xx, is_redirect 3xx,
    # is_client_error 4xx, is_server_error 5xx, is_error 4xx-5xx
    def _rng(self, lo, hi):
        st = self.status_code
        return (lo <= st) & (st <= hi) if not isinstance(st, int) else lo <= st <= hi

    is_informational = property(lambda self: self._rng(100, 199))
    is_success = property(lambda self: self._rng(200, 299))
    is_redirect = property(lambda self: self._rng(300, 399))
    is_client_error = property(lambda self: self._rng(400, 499))
    is_server_error = property(lambda self: self._rng(500, 599))
    is_error = property(lambda self: self._rng(400, 599))


def drive(coro):
    try:
        coro.send(None)
    except StopIteration as e:
        return e.value
    raise RuntimeError("coroutine suspended")


_PK = {}


def pkgs(instrumented, PKG="cl06"):
    """(endpoints module, exceptions module, http_transport module) of the generated client."""
    key = (bool(instrumented), PKG)
    if key not in _PK:
        root = root_dir()
        if root not in sys.path:
            sys.path.insert(0, root)
        name = hook.add_root(PKG, os.path.join(root, PKG)) if instrumented else PKG
        _PK[key] = (
            importlib.import_module(name + ".endpoints.default"),
            importlib.import_module(name + ".core.exceptions"),
            importlib.import_module(name + ".core.http_transport"),
        )
    return _PK[key]


def call(instrumented, op, status, bundled, empty=False):
    ep, exc, tr = pkgs(instrumented, OP_PKG.get(op, "cl06"))

    class Stub:
        async def request(self, method, url, **kw):
            return Resp(status, empty)

    if bundled:
        t = tr.HttpxTransport(base_url="http://x")
        t._client = Stub()
    else:
        t = Stub()
    c = ep.DefaultClient(t, "http://x")
    try:
        res = getattr(c, op)()
        if hasattr(res, "__anext__"):
            # a streaming operation is an async generator: the request is made, and an error raised, when it is iterated
            try:
                drive(res.__anext__())
            except StopAsyncIteration:
                pass
            return ("returned", "AsyncIterator")
        v = drive(res)
        return ("returned", type(v).__name__)
    except exc.HTTPError as e:
        return ("raised", True, isinstance(e, exc.ClientError), isinstance(e, exc.ServerError),
                getattr(e, "status_code", None), getattr(e, "response", None) is not None)
    except Exception as e:  # noqa
        return ("raised", False, False, False, None, False, type(e).__name__)


class StatusOb(Obligation):
    functions = [
        "pyopenapi_gen.core.http_transport:HttpxTransport.request",
        "pyopenapi_gen.core.exceptions:HTTPError",
        "pyopenapi_gen.visit.endpoint.generators.response_handler_generator:EndpointResponseHandlerGenerator.generate_response_handling",
        "pyopenapi_gen.visit.exception_visitor:ExceptionVisitor.visit",
        "pyopenapi_gen.core.http_status_codes:get_exception_class_name",
    ]

    def __init__(self, op, bundled):
        self.op, self.bundled = op, bundled
        self.name = "status/%s/%s" % (op, "bundled" if bundled else "custom")
        self.bounds = {"status": "symbolic int 100..599", "operation": op, "transport": "bundled HttpxTransport" if bundled else "custom transport returning non-2xx unraised"}

    def make_inputs(self, e):
        return {"status": mk_sym_int("status", 100, 599), "empty_body": bool(e.choose(2, "empty_body"))}

    def run_sym(self, inp):
        return call(True, self.op, inp["status"], self.bundled, inp["empty_body"])

    def run_real(self, inp):
        return call(False, self.op, inp["status"], self.bundled, inp["empty_body"])

    def prop(self, inp, r):
        st = inp["status"]
        if 200 <= st and st <= 299:
            return True  # 2xx (declared or not) is C05's subject
        if r[0] != "raised" or not r[1]:
            return False  # returned a value, or raised something that is not the package's HTTPError
        _, _, is_client, is_server, code, has_resp = r[:6]
        if not has_resp:
            return False
        if not (code == st):
            return False
        if 400 <= st and st < 500:
            return is_client
        if 500 <= st and st < 600:
            return is_server
        return True

    def describe_violation(self, inp, r):
        return "%s via %s transport, status %r -> %r (need: raises HTTPError carrying the status and response; ClientError for 4xx, ServerError for 5xx)" % (
            self.op, "bundled" if self.bundled else "custom", inp["status"], r)


def mk(op, bundled):
    return StatusOb(op, bundled)


# ------------------------------------------------------------------ shared-core alias classes
def k_alias_base(P, code):
    """the alias class ExceptionsEmitter writes for a shared core (union of the registry) for one status code"""
    ee = importlib.import_module(P.__name__ + ".emitters.exceptions_emitter")
    rc = importlib.import_module(P.__name__ + ".context.render_context")
    hsc = importlib.import_module(P.__name__ + ".core.http_status_codes")
    em = ee.ExceptionsEmitter(core_package_name="core", overall_project_root="/proj")
    ctx = rc.RenderContext(core_package_name="core", package_root_for_generated_code="/proj/core", overall_project_root="/proj")
    ctx.set_current_file("/proj/core/exception_aliases.py")
    text, names = em._generate_for_codes([code], ctx)
    return (text, hsc.get_exception_class_name(code))


class AliasBase(Obligation):
    functions = ["pyopenapi_gen.emitters.exceptions_emitter:ExceptionsEmitter._generate_for_codes", "pyopenapi_gen.core.http_status_codes:get_exception_class_name",
                 "pyopenapi_gen.core.http_status_codes:is_client_error", "pyopenapi_gen.core.http_status_codes:is_server_error"]

    def __init__(self):
        self.name = "shared_core_alias_base"
        self.bounds = {"status": "symbolic int 400..599"}

    def make_inputs(self, e):
        return {"code": mk_sym_int("code", 400, 599)}

    def _I(self):
        hook.install()
        import sxi_pyopenapi_gen as P  # noqa

        return P

    def run_sym(self, inp):
        from symx.explore import call_catching

        return call_catching(k_alias_base, self._I(), inp["code"])

    def run_real(self, inp):
        import pyopenapi_gen as P
        from symx.explore import call_catching

        return call_catching(k_alias_base, P, inp["code"])

    def normalise(self, r):
        from symx.core import is_sym

        return tuple(x.simp() if is_sym(x) else x for x in r) if isinstance(r, tuple) else r

    def prop(self, inp, r):
        from symx.core import SymStr, is_sym
        from symx.explore import Raised

        if isinstance(r, Raised):
            return False
        text, name = r
        st = inp["code"]
        base = "ClientError" if (st < 500) else "ServerError"
        header = SymStr.lift("class ") + name + "(" + base + "):" if is_sym(name) else "class " + name + "(" + base + "):"
        t = SymStr.lift(text) if not is_sym(text) else text
        return bool(t.contains_expr(header))

    def describe_violation(self, inp, r):
        return "shared-core alias for status %r: expected 'class <Name>(%s)' in %r" % (inp["code"], "ClientError for 4xx / ServerError for 5xx", self.normalise(r))


def mk_alias_base():
    return AliasBase()


def prepare(rep=None):
    root = gen.workdir("c06", fresh=True)
    errs = {}
    for pkg, fn in SPECS.items():
        files, err = gen.generate(fn(), root, pkg)
        if err:
            errs[pkg] = err
    return root, errs


def run(tier, rep, only=None):
    root, err = prepare()
    rep.bounds = {"status": "one symbolic int over 100..599", "operation_templates": OPS,
                  "transports": ["custom (returns non-2xx unraised)", "bundled HttpxTransport"]}
    rep.stubs = ["httpx.AsyncClient.request / custom transport -> stub returning a response with the symbolic status and a fixed conforming JSON body"]
    rep.assumptions = ["template family T_err of 8 operations stands for the declared-status shapes (only 2xx; 404+500; default without/with content; 204 only; 302+418; several 2xx + 409/503; declared codes outside the well-known registry 499/520/599); response body empty or non-empty"]
    import subprocess

    bad = set()
    for pkg in SPECS:
        if pkg in err:
            rep.violations.append({"obligation": "generate(%s)" % pkg, "inputs": {"spec": pkg}, "detail": "generation failed: " + err[pkg]})
            bad.add(pkg)
            continue
        p = subprocess.run([sys.executable, "-c", "import %s.endpoints.default, %s.core" % (pkg, pkg)], cwd=root, capture_output=True,
                           text=True, env=dict(os.environ, PYTHONPATH=root))
        if p.returncode != 0:
            rep.violations.append({"obligation": "import(%s)" % pkg, "inputs": {"spec": json_dump(SPECS[pkg]())},
                                   "detail": "generated endpoints module does not import (a declared status breaks every operation of the tag): "
                                   + (p.stderr.strip().splitlines() or ["?"])[-1][:300]})
            bad.add(pkg)
    specs = [(MOD, "mk", (op, b)) for op in OPS for b in (False, True) if OP_PKG.get(op, "cl06") not in bad]
    specs.append((MOD, "mk_alias_base", ()))
    if only:
        specs = [s for s in specs if only in explore.build(s).name]
    res = explore.run_all(specs, split=10**9)
    for s in specs:
        ob = explore.build(s)
        rep.add_symx(res[ob.name], functions=ob.functions, bounds=ob.bounds)


def json_dump(o):
    import json

    return json.dumps(o)[:600]


def replay(path):
    import json

    v = json.load(open(path))["violation"]
    root, errs = prepare()
    if v["obligation"] == "shared_core_alias_base":
        ob = AliasBase()
        r = ob.run_real(v["inputs"])
        ok = bool(ob.prop(v["inputs"], r))
        print("replay %s %s -> holds=%s" % (v["obligation"], v["inputs"], ok))
        return 0 if ok else 1
    if not v["obligation"].startswith("status/"):
        import subprocess

        pkg = v["obligation"].split("(")[1].rstrip(")")
        p = subprocess.run([sys.executable, "-c", "import %s.endpoints.default, %s.core" % (pkg, pkg)], cwd=root, env=dict(os.environ, PYTHONPATH=root))
        print("replay import(%s): rc=%s gen_errors=%s" % (pkg, p.returncode, errs))
        return 1 if (p.returncode or errs) else 0
    _, op, kind = v["obligation"].split("/")
    ob = StatusOb(op, kind == "bundled")
    r = ob.run_real(v["inputs"])
    ok = bool(ob.prop(v["inputs"], r))
    print("replay %s status=%s -> %r holds=%s" % (v["obligation"], v["inputs"], r, ok))
    return 0 if ok else 1
