"""C10 — Without force, existing output is never touched; writes stay contained (engine E1 / symx; orchestration kernel).

Kernel: the REAL `ClientGenerator.generate` (path derivation from dotted package names, force / non-force branch, temp-dir
generation, `_show_diffs`, rmtree, ancestor `__init__.py` creation, error propagation).  The seven emitters, the loader
and the post-processor are recording stubs that write one file each below the directory they are told to write to (the
emitters' own containment below that directory is a lemma decided separately: `Containment` below, on the real
EndpointsEmitter / MocksEmitter with symbolic tags).  Instrumented code runs against an in-memory file system whose path
components are symbolic (lib/memfs.py); the uninstrumented code runs the same history on the REAL file system in a scratch
directory and the observed effects are compared on every path.

Symbolic: output package and core package names (dotted, segments over {a, b}, up to 3 characters: embedded, nested,
sibling, prefix-sibling `a` / `ab`, core == output, output inside core), and by solver-decided choice: whether a core
package is given, how the existing tree was tampered with after a first generation (not at all, a generated file
modified, deleted, the package marker deleted, a core file modified, an extra file added), force on/off for the second run, and the stage at which a
failure is injected (none, load, parse, warnings, each of the emitters incl. the repeated calls, post-processing).

P (history: first generation into an empty project; tamper; second generation):
  * every path created, modified or removed under the project root by either run lies inside the output package directory,
    inside the core package directory, or is an ancestor package directory / its `__init__.py`;
  * second run without force: nothing under the project root is touched (content, existence, write count), whatever the
    failure point; it succeeds iff no failure was injected and no generated file was modified or deleted (an extra file is
    tolerated), and raises otherwise;
  * second run with force: succeeds iff no failure was injected.
"""
from __future__ import annotations

import contextlib
import hashlib
import io
import json
import os
import shutil
import tempfile
from importlib import import_module

import memfs
from symx import explore, hook
from symx.core import SymStr, is_sym, mk_sym_str, ranges_of_pts, s_not, join as sjoin
from symx.explore import Obligation, Raised, call_catching

hook.install()
MOD = "props.c10"
PKG = ranges_of_pts([ord(c) for c in "ab."])
TAMPER = ["none", "modify_client", "delete_model", "modify_core", "extra_file", "delete_init"]
NFAULT = 13  # 0 = none; 1..12 = the k-th stage call


def _I():
    import sxi_pyopenapi_gen as P  # noqa

    return P


def _R():
    import pyopenapi_gen as P

    return P


def _simp(x):
    return x.simp() if is_sym(x) else x


def _cat(*xs):
    if any(is_sym(x) for x in xs):
        out = SymStr.lift(xs[0]) if not is_sym(xs[0]) else xs[0]
        for x in xs[1:]:
            out = out + x
        return out
    return "".join(xs)


class Injected(RuntimeError):
    pass


class State:
    def __init__(self, fault):
        self.fault, self.count, self.fired, self.stages = fault, 0, False, []

    def tick(self, name):
        self.count += 1
        self.stages.append(name)
        if self.fault and self.count == self.fault:
            self.fired = True
            raise Injected("injected failure at stage %d (%s)" % (self.count, name))


class SymIO:
    def __init__(self, fs):
        self.fs = fs

    def write(self, path, content):
        parts = memfs.parse(path)
        self.fs.mkdir(parts[:-1], parents=True, exist_ok=True)
        self.fs.write(parts, content)

    def exists(self, path):
        return self.fs.exists(memfs.parse(path))

    def cat(self, base, *names):
        return memfs.text_of(memfs.join_norm(memfs.parse(base), [c for n in names for c in (n.split("/") if isinstance(n, str) else [n])]))

    def rel(self, target, start):
        r = memfs.relpath_parts(memfs.parse(target), memfs.parse(start))
        return sjoin("/", list(r)) if any(is_sym(p) for p in r) else "/".join(r)

    def join_rel(self, base, rel):
        comps = [_simp(c) for c in rel.split("/")]
        return memfs.text_of(memfs.join_norm(memfs.parse(base), comps))


class RealIO:
    def write(self, path, content):
        os.makedirs(os.path.dirname(path), exist_ok=True)
        with open(path, "w", newline="") as fh:
            fh.write(content)

    def exists(self, path):
        return os.path.exists(path)

    def cat(self, base, *names):
        return os.path.join(str(base), *names)

    def rel(self, target, start):
        return os.path.relpath(str(target), str(start))

    def join_rel(self, base, rel):
        return os.path.normpath(os.path.join(str(base), rel))


class _ToolModel:
    """Stands where `subprocess` is in core/postprocess_manager.py.  Contract of the tools it is asked to run: ruff keeps a
    cache directory `.ruff_cache` in the working directory unless told `--no-cache` (or `--cache-dir`); here the working
    directory is the project root (where the CLI is normally started)."""

    PIPE = -1

    def __init__(self, io_, cwd):
        self.io, self.cwd, self.argvs = io_, cwd, []

    def run(self, argv, **kw):
        argv = list(argv)
        self.argvs.append(argv)
        words = [a for a in argv if isinstance(a, str)]
        if "ruff" in words and "--no-cache" not in words and not any(w.startswith("--cache-dir") for w in words):
            self.io.write(self.io.cat(self.cwd, ".ruff_cache", "CACHEDIR.TAG"), "ruff cache")

        class Done:
            returncode = 0
            stdout = ""
            stderr = ""

        return Done()


def make_stubs(io_, st, pm_mod=None):
    """Recording stand-ins for loader, emitters and post-processing.  File contents encode the arguments that matter for
    the generated text (package names, relative position of the package below the project root), so that a non-force
    re-run can only report 'no differences' if both branches of generate() pass equivalent arguments."""

    class IR:
        schemas = {}
        operations = []
        discriminator_skip_list = set()

    class RenderContext:
        def __init__(self, **kw):
            self.kw = kw

        def sig(self):
            k = self.kw
            return _cat("core=", k.get("core_package_name"), " pkg=", k.get("output_package_name") or "?", " at=",
                        io_.rel(k.get("package_root_for_generated_code"), k.get("overall_project_root")), "\n")

    def fetch_spec(path):
        st.tick("load")
        return {"openapi": "3.0.3"}

    def load_ir_from_spec(spec, naming_strategy=None):
        st.tick("parse")
        return IR()

    class WarningCollector:
        def collect(self, ir):
            st.tick("warnings")
            return []

    class ExceptionsEmitter:
        def __init__(self, core_package_name=None, overall_project_root=None):
            self.core = core_package_name

        def emit(self, ir, core_dir, client_package_name=None):
            st.tick("exceptions")
            p = io_.cat(core_dir, "exception_aliases.py")
            io_.write(p, _cat("aliases core=", self.core, " client=", client_package_name, "\n"))
            return [p], ["NotFoundError"]

    class CoreEmitter:
        def __init__(self, core_dir="core", core_package="core", exception_alias_names=None):
            self.rel, self.pkg = core_dir, core_package

        def emit(self, out_dir):
            st.tick("core")
            d = io_.join_rel(out_dir, self.rel)
            files = [io_.cat(d, "config.py"), io_.cat(d, "auth", "base.py"), io_.cat(d, "py.typed")]
            for f in files[:2]:
                io_.write(f, _cat("core file of ", self.pkg, "\n"))
            io_.write(files[2], "")
            return files

    class ModelsEmitter:
        def __init__(self, context=None, parsed_schemas=None, discriminator_skip_list=None):
            self.ctx = context

        def emit(self, ir, out_dir):
            st.tick("models")
            p = io_.cat(out_dir, "models", "m.py")
            io_.write(p, _cat("model ", self.ctx.sig()))
            return {"m": [p]}

    def single(name, relfile):
        class E:
            def __init__(self, context=None):
                self.ctx = context

            def emit(self, arg, out_dir):
                st.tick(name)
                if name == "endpoints":
                    # like the real emitter: package markers are created when missing, never overwritten
                    for marker in (io_.cat(out_dir, "endpoints", "__init__.py"), io_.cat(out_dir, "__init__.py")):
                        if not io_.exists(marker):
                            io_.write(marker, "")
                p = io_.cat(out_dir, *relfile.split("/"))
                io_.write(p, _cat(name, " ", self.ctx.sig()))
                return [p]

        E.__name__ = name
        return E

    class PostprocessManager:
        def __init__(self, root):
            self.root = root

        def run(self, files):
            st.tick("postprocess")
            if pm_mod is None:
                return
            # the REAL manager's ruff steps (command lines are the repo's) against the tool contract above
            saved = pm_mod.subprocess
            pm_mod.subprocess = _ToolModel(io_, self.root)
            try:
                real = pm_mod.PostprocessManager(self.root)
                targets = [f for f in files][:2]
                real.remove_unused_imports_bulk(targets)
                real.sort_imports_bulk(targets)
                real.format_code_bulk(targets)
            finally:
                pm_mod.subprocess = saved

    return dict(RenderContext=RenderContext, fetch_spec=fetch_spec, load_ir_from_spec=load_ir_from_spec, WarningCollector=WarningCollector,
                ExceptionsEmitter=ExceptionsEmitter, CoreEmitter=CoreEmitter, ModelsEmitter=ModelsEmitter,
                EndpointsEmitter=single("endpoints", "endpoints/e.py"), ClientEmitter=single("client", "client.py"),
                MocksEmitter=single("mocks", "mocks/mock_client.py"), PostprocessManager=PostprocessManager)


def _model_unified_diff(a, b, fromfile="", tofile="", **kw):
    a, b = list(a), list(b)
    if len(a) == len(b) and all((x == y) if (isinstance(x, str) and isinstance(y, str)) else bool(SymStr.lift(x) == y) for x, y in zip(a, b)):
        return iter(())
    return iter(["--- old", "+++ new", "@@ @@"])


class _Patched:
    """temporarily replace names in the client_generator module"""

    def __init__(self, mod, repl):
        self.mod, self.repl, self.saved = mod, repl, {}

    def __enter__(self):
        for k, v in self.repl.items():
            self.saved[k] = self.mod.__dict__.get(k, _Patched)
            self.mod.__dict__[k] = v

    def __exit__(self, *a):
        for k, v in self.saved.items():
            if v is _Patched:
                self.mod.__dict__.pop(k, None)
            else:
                self.mod.__dict__[k] = v
        return False


def _segments(pkg):
    return [_simp(s) for s in pkg.split(".")]


def _run(cg, root, out_pkg, core_pkg, force, spec="spec.json"):
    g = cg.ClientGenerator(verbose=False)
    try:
        with contextlib.redirect_stdout(io.StringIO()):
            g.generate(spec, root, out_pkg, force=force, no_postprocess=False, core_package=core_pkg)
        return "ok"
    except Injected:
        return "injected"
    except cg.GenerationError:
        return "generation_error"


def _tamper_paths(out_parts, core_parts, tamper):
    return {"modify_client": out_parts + ("client.py",), "delete_model": out_parts + ("models", "m.py"), "modify_core": core_parts + ("config.py",),
            "extra_file": out_parts + ("extra.py",), "delete_init": out_parts + ("__init__.py",)}.get(tamper)


def k_history_sym(P, out_pkg, core_pkg, tamper, force2, fault2):
    cg = import_module(P.__name__ + ".generator.client_generator")
    fs = memfs.MemFS()
    ver = [0]
    orig_write = fs.write

    def write(parts, text):
        orig_write(parts, text)
        ver[0] += 1
        fs.ent[fs._find(parts)].append(ver[0])  # write stamp (stands for mtime)

    fs.write = write
    root = ("proj",)
    fs.mkdir(root)
    out_parts = root + tuple(_segments(out_pkg))
    core_parts = root + tuple(_segments(core_pkg if core_pkg is not None else _cat(out_pkg, ".core")))
    fs.write(root + ("sentinel.txt",), "keep")
    sib = root + (_cat(out_parts[1], "x"),)
    fs.mkdir(sib)
    fs.write(sib + ("keep.py",), "keep")
    import difflib

    def snap():
        return [(e[0], e[1], e[2], e[-1] if e[1] == "file" else None) for e in fs.under(root)]

    def changed(before, after):
        out = []
        for b in before:
            hit = [a for a in after if memfs.peq(a[0], b[0])]
            if not hit:
                out.append(b[0])
            elif hit[0][1] != b[1] or hit[0][3] != b[3]:
                out.append(b[0])
        for a in after:
            if not any(memfs.peq(a[0], b[0]) for b in before):
                out.append(a[0])
        return out

    def run(force, fault):
        st = State(fault)
        repl = make_stubs(SymIO(fs), st, import_module(P.__name__ + ".core.postprocess_manager"))
        repl.update(Path=memfs.path_factory(fs), tempfile=memfs.TempDirs(fs), shutil=memfs.Shutil(fs), os=memfs.Os(fs))

        def fake_open(p, mode="r"):
            class F:
                def __enter__(s):
                    s.buf = []
                    return s

                def write(s, t):
                    s.buf.append(t)

                def __exit__(s, *a):
                    fs.write(memfs.parse(p), s.buf[0] if len(s.buf) == 1 else "")
                    return False

            return F()

        repl["open"] = fake_open
        saved = difflib.unified_diff
        difflib.unified_diff = _model_unified_diff
        try:
            with _Patched(cg, repl):
                out = _run(cg, memfs.SPath(fs, root), out_pkg, core_pkg, force)
        finally:
            difflib.unified_diff = saved
        return out, st

    s0 = snap()
    o1, st1 = run(True, 0)
    s1 = snap()
    c1 = changed(s0, s1)
    tp = _tamper_paths(out_parts, core_parts, tamper)
    tampered = False
    if tp is not None and o1 == "ok":
        if tamper in ("delete_model", "delete_init"):
            if fs.kind(tp) == "file":
                fs.unlink(tp)
                tampered = True
        elif tamper == "extra_file":
            fs.write(tp, "extra")
        elif fs.kind(tp) == "file":
            fs.write(tp, _cat(fs.read(tp), "# edited\n"))
            tampered = True
    s1b = snap()
    o2, st2 = run(force2, fault2)
    s2 = snap()
    c2 = changed(s1b, s2)
    leftovers = len(fs.under(("tmp",)))
    return dict(o1=o1, c1=[memfs.text_of(p[1:]) for p in c1], o2=o2, c2=[memfs.text_of(p[1:]) for p in c2], fired=st2.fired, tampered=tampered,
                leftovers=leftovers, out=memfs.text_of(out_parts[1:]), core=memfs.text_of(core_parts[1:]), stages2=len(st2.stages))


def k_history_real(P, out_pkg, core_pkg, tamper, force2, fault2):
    cg = import_module(P.__name__ + ".generator.client_generator")
    base = tempfile.mkdtemp(prefix="c10_")
    root = os.path.join(base, "proj")
    os.makedirs(root)
    try:
        out_parts = tuple(out_pkg.split("."))
        core_parts = tuple((core_pkg if core_pkg is not None else out_pkg + ".core").split("."))
        with open(os.path.join(root, "sentinel.txt"), "w") as fh:
            fh.write("keep")
        sib = os.path.join(root, out_parts[0] + "x")
        os.makedirs(sib)
        with open(os.path.join(sib, "keep.py"), "w") as fh:
            fh.write("keep")

        def snap():
            out = {}
            for d, dirs, files in os.walk(root):
                for n in dirs:
                    out[os.path.relpath(os.path.join(d, n), root)] = ("dir", None)
                for n in files:
                    p = os.path.join(d, n)
                    s = os.stat(p)
                    out[os.path.relpath(p, root)] = ("file", (hashlib.sha256(open(p, "rb").read()).hexdigest(), s.st_mtime_ns))
            return out

        def changed(b, a):
            return sorted(k for k in set(a) | set(b) if a.get(k) != b.get(k))

        mytmp = os.path.join(base, "tmp")
        os.makedirs(mytmp)

        class _Tempfile:
            gettempdir = staticmethod(lambda: mytmp)
            TemporaryDirectory = staticmethod(lambda *a, **k: tempfile.TemporaryDirectory(dir=mytmp))

        def run(force, fault):
            st = State(fault)
            repl = make_stubs(RealIO(), st, import_module(P.__name__ + ".core.postprocess_manager"))
            repl["tempfile"] = _Tempfile
            with _Patched(cg, repl):
                return _run(cg, root, out_pkg, core_pkg, force), st

        s0 = snap()
        o1, st1 = run(True, 0)
        s1 = snap()
        tp = _tamper_paths(out_parts, core_parts, tamper)
        tampered = False
        if tp is not None and o1 == "ok":
            p = os.path.join(root, *tp)
            if tamper in ("delete_model", "delete_init"):
                if os.path.isfile(p):
                    os.unlink(p)
                    tampered = True
            elif tamper == "extra_file":
                with open(p, "w") as fh:
                    fh.write("extra")
            elif os.path.isfile(p):
                with open(p, "a") as fh:
                    fh.write("# edited\n")
                tampered = True
        s1b = snap()
        o2, st2 = run(force2, fault2)
        s2 = snap()
        leftovers = len(os.listdir(mytmp))
        return dict(o1=o1, c1=["/" + k for k in changed(s0, s1)], o2=o2, c2=["/" + k for k in changed(s1b, s2)], fired=st2.fired, tampered=tampered,
                    leftovers=leftovers, out="/" + "/".join(out_parts), core="/" + "/".join(core_parts), stages2=len(st2.stages))
    finally:
        shutil.rmtree(base, ignore_errors=True)


def _allowed(p, out, core):
    """p, out, core: '/'-texts relative to the project root (concrete or symbolic)"""
    pp, op, cp = memfs.parse(p), memfs.parse(out), memfs.parse(core)
    if memfs.pstarts(pp, op) or memfs.pstarts(pp, cp):
        return True
    for target in (op, cp):
        if memfs.pstarts(target, pp):  # an ancestor package directory
            return True
        if len(pp) >= 1 and memfs.ceq(pp[-1], "__init__.py") and memfs.pstarts(target, pp[:-1]):
            return True
    return False


class History(Obligation):
    functions = ["pyopenapi_gen.generator.client_generator:ClientGenerator.generate", "pyopenapi_gen.generator.client_generator:ClientGenerator._show_diffs"]
    alphabet = PKG
    timeout_ms = 30000

    def __init__(self, olen, clen):
        self.olen, self.clen = olen, clen
        self.name = "history/out=%d/core=%s" % (olen, clen)
        self.bounds = {"output_package_len": olen, "core_package_len": clen if clen else "not given (embedded <out>.core)", "alphabet": "a b .",
                       "tamper": TAMPER, "fault_stage": "0..%d" % (NFAULT - 1), "second run": "force on/off"}

    def _valid(self, e, s):
        e.assume(s_not(s.startswith(".")))
        e.assume(s_not(s.endswith(".")))
        if len(s) >= 2:
            e.assume(s_not(s.contains_expr("..")))

    def make_inputs(self, e):
        inp = {"out_pkg": mk_sym_str(self.olen, "out", PKG)}
        self._valid(e, inp["out_pkg"])
        if self.clen:
            inp["core_pkg"] = mk_sym_str(self.clen, "core", PKG)
            self._valid(e, inp["core_pkg"])
        else:
            inp["core_pkg"] = None
        inp["tamper"] = TAMPER[e.choose(len(TAMPER), "tamper")]
        inp["force2"] = bool(e.choose(2, "force2"))
        inp["fault2"] = e.choose(NFAULT, "fault2")
        return inp

    def _args(self, inp):
        return (inp["out_pkg"], inp["core_pkg"], inp["tamper"], inp["force2"], inp["fault2"])

    def run_sym(self, inp):
        return call_catching(k_history_sym, _I(), *self._args(inp))

    def run_real(self, inp):
        return call_catching(k_history_real, _R(), *self._args(inp))

    def normalise(self, r):
        if not isinstance(r, dict):
            return r
        d = dict(r)
        d["c1"] = sorted(_simp(x) for x in d["c1"])
        d["c2"] = sorted(_simp(x) for x in d["c2"])
        d["out"], d["core"] = _simp(d["out"]), _simp(d["core"])
        return d

    def verdict(self, inp, r):
        if isinstance(r, Raised):
            return "generate raised an unexpected %s" % r.kind
        if r["o1"] != "ok":
            return "first generation into an empty project failed: %s" % r["o1"]
        for p in r["c1"]:
            if not _allowed(p, r["out"], r["core"]):
                return "first generation touched %s, outside the output / core package directories" % (_simp(p),)
        for p in r["c2"]:
            if not _allowed(p, r["out"], r["core"]):
                return "second generation touched %s, outside the output / core package directories" % (_simp(p),)
        if r["leftovers"]:
            return "temporary directory left behind"
        if not inp["force2"]:
            if r["c2"]:
                return "non-force run touched %r" % ([_simp(p) for p in r["c2"]],)
            want = "injected" if r["fired"] else ("generation_error" if r["tampered"] else "ok")
            if r["o2"] != want:
                return "non-force run ended %s, expected %s (tamper=%s tampered=%s)" % (r["o2"], want, inp["tamper"], r["tampered"])
        else:
            want = "injected" if r["fired"] else "ok"
            if r["o2"] != want:
                return "force run ended %s, expected %s" % (r["o2"], want)
        return None

    def prop(self, inp, r):
        return self.verdict(inp, r) is None

    def describe_violation(self, inp, r):
        return "out=%r core=%r tamper=%s force2=%s fault2=%s: %s" % (_simp(inp["out_pkg"]), _simp(inp["core_pkg"]), inp["tamper"], inp["force2"], inp["fault2"], self.verdict(inp, r))


def mk_history(olen, clen):
    return History(olen, clen)


class Containment(Obligation):
    """Lemma for the stubbed emitters: the tag-routed emitters (real EndpointsEmitter.emit / MocksEmitter.emit) write only
    directly inside <out>/endpoints and <out>/mocks/endpoints, whatever the (symbolic) tag."""
    functions = ["pyopenapi_gen.emitters.endpoints_emitter:EndpointsEmitter.emit", "pyopenapi_gen.emitters.mocks_emitter:MocksEmitter.emit"]

    def __init__(self, n):
        from props import c07

        self.n = n
        self.alphabet = ranges_of_pts([ord(c) for c in "aA1-_ ./\\\u00e9"])
        self.name = "containment/tag_len=%d" % n
        self.bounds = {"tag_len": n, "alphabet": "a A 1 - _ SP . / \\ é"}

    def make_inputs(self, e):
        return {"tag": mk_sym_str(self.n, "tag", self.alphabet)}

    def _k(self, P, inp):
        from props import c13

        ep, mk, _t1, _t2 = c13.k_surfaces(P, [[inp["tag"]]])
        from props import c07

        return ([c07._file_text(g[0]) for g in ep], [c07._file_text(g[0]) for g in mk])

    def run_sym(self, inp):
        return call_catching(self._k, _I(), inp)

    def run_real(self, inp):
        return call_catching(self._k, _R(), inp)

    def normalise(self, r):
        return ([_simp(x) for x in r[0]], [_simp(x) for x in r[1]]) if isinstance(r, tuple) else r

    def prop(self, inp, r):
        if isinstance(r, Raised):
            return True
        for paths, prefix in ((r[0], "/out/endpoints/"), (r[1], "/out/mocks/endpoints/")):
            for p in paths:
                if len(p) <= len(prefix) or not bool(p.startswith(prefix)):
                    return False
                rest = p[len(prefix):]
                if bool(SymStr.lift(rest).contains_expr("/")) or not bool(rest.endswith(".py")):
                    return False
        return True

    def describe_violation(self, inp, r):
        return "tag %r: files written %r" % (_simp(inp["tag"]), self.normalise(r))


def mk_containment(n):
    return Containment(n)


def specs(tier):
    q = tier == "quick"
    out = [(MOD, "mk_containment", (n,)) for n in ((1, 2) if q else (1, 2, 3))]
    from props import c09h

    out.extend(c09h.specs(tier, "c10"))  # with the REAL ExceptionsEmitter: a non-force run never touches the shared registry
    out.append(("props.c12", "mk_copy", (2, 2)))  # lemma for the stubbed CoreEmitter: the real one writes nothing outside the core directory
    for olen, clen in ([(1, 0), (1, 1), (3, 0), (1, 2), (3, 1)] if q else [(1, 0), (1, 1), (2, 0), (3, 0), (1, 2), (2, 1), (2, 2), (3, 1), (1, 3), (3, 3), (3, 2), (2, 3)]):
        out.append((MOD, "mk_history", (olen, clen)))
    return out


def run(tier, rep, only=None):
    sp = specs(tier)
    if only:
        sp = [s for s in sp if only in explore.build(s).name]
    rep.bounds = {"package names": "<=3 characters over 'a b .', valid dotted names", "history": "generate(force) ; tamper ; generate(force?/fault?)",
                  "fault stages": NFAULT - 1}
    rep.stubs = ["loader, WarningCollector, the seven emitters -> recording stubs writing one file each below the directory they are given",
                 "PostprocessManager -> its REAL ruff steps (command lines are the repo's) run against a model of the tool: ruff without --no-cache / --cache-dir writes .ruff_cache into the working directory, taken to be the project root; mypy is not run",
                 "pathlib.Path / tempfile / shutil / os.path / open in client_generator -> lib/memfs.py (instrumented run); the uninstrumented run uses the real file system",
                 "difflib.unified_diff -> contract model (no output iff equal line lists)"]
    rep.assumptions = ["package names are valid dotted names (no empty segment)", "emitters write only below the directory they are given (lemma, decided for the tag-routed emitters under C07/C13)"]
    res = explore.run_all(sp, log=lambda m: print("[c10]", m, flush=True))
    for spec in sp:
        ob = explore.build(spec)
        rep.add_symx(res[ob.name], functions=ob.functions, bounds=ob.bounds)


def replay(path):
    v = json.load(open(path))["violation"]
    if v["obligation"].startswith("shared_core_history"):
        from props import c09h

        ob, inp = c09h.replay_ob(v)
        why = ob.verdict(inp, ob.run_real(inp), ob.which)
        print("replay %s inputs=%r -> %s" % (v["obligation"], inp, "holds" if why is None else why))
        return 0 if why is None else 1
    if v["obligation"].startswith("copy_step"):
        from props import c12

        return c12.replay(path)
    if v["obligation"].startswith("containment"):
        ob = Containment(int(v["obligation"].split("=")[1]))
        r = ob.run_real(v["inputs"])
        ok = bool(ob.prop(v["inputs"], r))
        print("replay %s inputs=%r -> holds=%s" % (v["obligation"], v["inputs"], ok))
        return 0 if ok else 1
    parts = v["obligation"].split("/")
    ob = History(int(parts[1].split("=")[1]), int(parts[2].split("=")[1]))
    inp = v["inputs"]
    r = ob.run_real(inp)
    why = ob.verdict(inp, r)
    print("replay %s inputs=%r -> %s" % (v["obligation"], inp, "holds" if why is None else why))
    return 0 if why is None else 1
