"""C07 — Every operation is reachable exactly once per tag; none silently dropped (engine E1 / symx).

K1  names      real parse_operations (all three naming strategies) on a `paths` object whose path strings / operationIds
               are symbolic, then the real EndpointsEmitter._deduplicate_operation_ids_globally and the render-time
               sanitize_method_name.  P: operations out == (path, method) pairs in; method names valid and pairwise distinct.
K2  routing    real EndpointsEmitter.emit (grouping, canonical tag, module/class names, file writes; visitor, context and
               pathlib stubbed by recorders) and real ClientVisitor.visit (tag tuples; rendering stubbed) on operations
               whose tags are symbolic.  P: no two tag groups write the same file, every (operation, tag) pair is in
               exactly one written client, the APIClient side derives exactly the written (class, module) pairs, module
               names are valid distinct identifiers.
K3  status key real parse_operations on one operation whose response key is the int c or the string str(c), c symbolic in
               100..599.  P: one operation out, with that status.
"""
from __future__ import annotations

import copy
import json
import re
import keyword
from importlib import import_module

from symx import explore, hook
from symx.core import SymStr, contains_any, is_sym, mk_sym_int, mk_sym_str, ranges_of_pts, s_and, s_not
from symx.explore import Obligation, Raised, call_catching

hook.install()
MOD = "props.c07"

PATH_ALPHA = ranges_of_pts([ord(c) for c in "/{}-_aA1."])
ID_ALPHA = ranges_of_pts([ord(c) for c in "aAbB12_- .{"])
TAG_ALPHA = ranges_of_pts([ord(c) for c in "aAbB1-_ .\xe9中"])


def _I():
    import sxi_pyopenapi_gen as P  # noqa

    return P


def _R():
    import pyopenapi_gen as P

    return P


def _inst(P):
    return P.__name__.startswith("sxi_")


def valid_ident(r):
    if r is None or isinstance(r, Raised) or len(r) == 0:
        return False
    if isinstance(r, str):
        return r.isidentifier() and not keyword.iskeyword(r)
    return s_and(r.isidentifier(), s_not(contains_any(keyword.kwlist, r)))


def all_distinct(names):
    for i in range(len(names)):
        for j in range(i + 1, len(names)):
            a, b = names[i], names[j]
            if a is None or b is None:
                return False
            if len(a) == len(b) and bool(a == b):
                return False
    return True


# ------------------------------------------------------------------ K1
OK_RESP = {"200": {"description": "ok"}}


def k_names(P, strategy, shape, *texts):
    """shape: 'two_paths' (GET p1, GET p2; operationIds absent)         texts = (p1, p2)
              'two_ids'   (GET /x id1, POST /x id2)                     texts = (id1, id2)
              'three_ids' (GET /x id1, POST /x id2, GET /y id3)         texts = (id1, id2, id3)
              'id_and_path' (GET p1 with operationId id1, GET /zz without)  texts = (id1, p1)
    returns (number of operations, method names in input order)"""
    ops_mod = import_module(P.__name__ + ".core.loader.operations")
    ctx_mod = import_module(P.__name__ + ".core.parsing.context")
    ee = import_module(P.__name__ + ".emitters.endpoints_emitter")
    D = hook.SDict if _inst(P) else dict
    paths = D()
    expect = []
    if shape == "two_paths":
        p1, p2 = ("/" + t for t in texts)
        paths[p1] = D(get=D(responses=OK_RESP))
        paths[p2] = D(get=D(responses=OK_RESP))
        if len(paths) != 2:
            return None
        expect = [(p1, "GET"), (p2, "GET")]
    elif shape == "two_ids":
        paths["/x"] = D(get=D(operationId=texts[0], responses=OK_RESP), post=D(operationId=texts[1], responses=OK_RESP))
        expect = [("/x", "GET"), ("/x", "POST")]
    elif shape == "three_ids":
        paths["/x"] = D(get=D(operationId=texts[0], responses=OK_RESP), post=D(operationId=texts[1], responses=OK_RESP))
        paths["/y"] = D(get=D(operationId=texts[2], responses=OK_RESP))
        expect = [("/x", "GET"), ("/x", "POST"), ("/y", "GET")]
    elif shape == "id_and_path":
        p1 = "/" + texts[1]
        paths[p1] = D(get=D(operationId=texts[0], responses=OK_RESP))
        paths["/zz"] = D(get=D(responses=OK_RESP))
        if len(paths) != 2:
            return None
        expect = [(p1, "GET"), ("/zz", "GET")]
    strat = {"operationId": P.NamingStrategy.OPERATION_ID, "clean": P.NamingStrategy.CLEAN, "path": P.NamingStrategy.PATH}[strategy]
    ctx = ctx_mod.ParsingContext()
    ops = ops_mod.parse_operations(paths, D(), D(), D(), ctx, naming_strategy=strat)
    em = ee.EndpointsEmitter.__new__(ee.EndpointsEmitter)
    em._deduplicate_operation_ids_globally(ops)
    names = []
    for path, method in expect:
        hit = [o for o in ops if o.method.value.upper() == method and (o.path is path or bool(o.path == path))]
        names.append(P.core.utils.NameSanitizer.sanitize_method_name(hit[0].operation_id) if len(hit) == 1 else None)
    return (len(ops), names)


class Names(Obligation):
    functions = ["pyopenapi_gen.core.loader.operations.parser:parse_operations",
                 "pyopenapi_gen.core.utils:NameSanitizer.clean_auto_generated_operation_id",
                 "pyopenapi_gen.core.utils:NameSanitizer.sanitize_method_name",
                 "pyopenapi_gen.emitters.endpoints_emitter:EndpointsEmitter._deduplicate_operation_ids_globally"]

    def __init__(self, strategy, shape, lens):
        self.strategy, self.shape, self.lens = strategy, shape, tuple(lens)
        self.name = "names/%s/%s/lens=%s" % (strategy, shape, "x".join(map(str, lens)))
        self.alpha = [PATH_ALPHA if (shape == "two_paths" or (shape == "id_and_path" and i == 1)) else ID_ALPHA for i in range(len(lens))]
        self.bounds = {"naming_strategy": strategy, "shape": shape, "lengths": list(lens),
                       "alphabets": "paths '/{}-_aA1.'  ids 'aAbB12_- .{'"}

    def make_inputs(self, e):
        inp = {}
        for i, n in enumerate(self.lens):
            inp["t%d" % i] = mk_sym_str(n, "t%d" % i, self.alpha[i])
        if self.shape == "two_paths" and self.lens[0] == self.lens[1]:
            e.assume(s_not(inp["t0"] == inp["t1"]))
        if self.shape in ("two_ids", "three_ids", "id_and_path"):
            # an operationId is a non-empty string in a valid document
            pass
        return inp

    def _args(self, inp):
        return [inp["t%d" % i] for i in range(len(self.lens))]

    def run_sym(self, inp):
        return call_catching(k_names, _I(), self.strategy, self.shape, *self._args(inp))

    def run_real(self, inp):
        return call_catching(k_names, _R(), self.strategy, self.shape, *self._args(inp))

    def prop(self, inp, r):
        if r is None:
            return True  # the two path strings coincide with a fixed sibling: not two operations
        if isinstance(r, Raised):
            return True  # generation failed visibly (an exception propagated): allowed by the property
        n, names = r
        k = 3 if self.shape == "three_ids" else 2
        if n != k or len(names) != k:
            return False
        return all(bool(valid_ident(x)) for x in names) and all_distinct(names)

    def describe_violation(self, inp, r):
        return "strategy=%s %s%r -> operations out=%r method names=%r (need: every operation kept, names valid and distinct)" % (
            self.strategy, self.shape, tuple(self._args(inp)), r[0] if isinstance(r, tuple) else r, r[1] if isinstance(r, tuple) else None)


def mk_names(strategy, shape, lens):
    return Names(strategy, shape, lens)


# ------------------------------------------------------------------ K2
class _FakePath:
    """pathlib.Path stand-in that carries symbolic components."""

    def __init__(self, *parts):
        self.parts = list(parts)

    def __truediv__(self, o):
        return _FakePath(*(self.parts + [o]))

    def exists(self):
        return False

    @property
    def parent(self):
        return _FakePath(*self.parts[:-1])

    def text(self):
        out = self.parts[0]
        for p in self.parts[1:]:
            out = out + "/" + p
        return out

    def _sx_str_(self):
        return self.text()

    def __str__(self):
        t = self.text()
        if is_sym(t):
            if t.is_concrete():
                return t.concrete()
            raise hook.Unsupported("str(path) with symbolic components reached uninstrumented code")
        return t


class _FM:
    def __init__(self):
        self.writes = []

    def ensure_dir(self, p):
        pass

    def write_file(self, path, content):
        self.writes.append((path, content))


class _Ctx:
    def __init__(self):
        self.file_manager = _FM()
        self.parsed_schemas = {}
        self.current = None

    def set_current_file(self, p):
        self.current = p

    def render_imports(self):
        return ""


class _Visitor:
    def __init__(self):
        self.classes = []

    def visit(self, op, ctx):
        return "M"

    def emit_endpoint_client_class(self, tag, methods, ctx, operations=None):
        self.classes.append((ctx.current, tag, list(operations or [])))
        return "C"


def k_routing(P, tagsets, ids=None, with_names=False):
    """tagsets: list of tag lists, one per operation -> (written groups, client tag tuples)
    groups: [(file path text, canonical tag, [operation indices])]; tuples: [(class, module)]"""
    ee = import_module(P.__name__ + ".emitters.endpoints_emitter")
    cv = import_module(P.__name__ + ".visit.client_visitor")
    ops = [P.IROperation(operation_id=(ids[i] if ids else "op%d" % i), method=P.HTTPMethod.GET, path="/p%d" % i, summary=None, description=None,
                         parameters=[], request_body=None, responses=[], tags=list(t)) for i, t in enumerate(tagsets)]
    em = ee.EndpointsEmitter.__new__(ee.EndpointsEmitter)
    em.context = _Ctx()
    em.formatter = None
    em.visitor = _Visitor()
    saved = ee.Path
    ee.Path = lambda s: _FakePath(s)
    try:
        em.emit(ops, "/out")
    finally:
        ee.Path = saved
    groups = []
    for cur, tag, gops in em.visitor.classes:
        groups.append((cur, tag, [ops.index(o) for o in gops]))
    v = cv.ClientVisitor()
    rec = {}
    v.generate_client_protocol = lambda spec, ctx, tt: rec.setdefault("tt", tt) and ""
    v._generate_client_implementation = lambda spec, ctx, tt: ""
    spec = P.IRSpec(title="t", version="1", schemas={}, operations=ops, servers=[])
    v.visit(spec, None)
    tuples = [(c, m) for _, c, m in rec.get("tt", [])]
    names = P.core.utils.NameSanitizer
    written = [(names.sanitize_class_name(tag) + "Client", names.sanitize_module_name(tag)) for _, tag, _ in groups]
    if with_names:
        # the method name each generator writes is sanitize_method_name(op.operation_id) after the global de-duplication
        return [[names.sanitize_method_name(ops[i].operation_id) for i in sorted(set(g[2]))] for g in groups]
    return ([(g[0], g[2]) for g in groups], written, tuples)


def _file_text(x):
    return x.text() if isinstance(x, _FakePath) else x


class Routing(Obligation):
    functions = ["pyopenapi_gen.emitters.endpoints_emitter:EndpointsEmitter.emit",
                 "pyopenapi_gen.visit.client_visitor:ClientVisitor.visit",
                 "pyopenapi_gen.core.utils:NameSanitizer.normalize_tag_key",
                 "pyopenapi_gen.core.utils:NameSanitizer.sanitize_module_name",
                 "pyopenapi_gen.core.utils:NameSanitizer.sanitize_class_name"]
    alphabet = TAG_ALPHA

    def __init__(self, shape, lens):
        # shape: list of per-operation tag counts, e.g. (1, 1) two operations with one tag each; (2,) one op with two tags
        self.shape, self.lens = tuple(shape), tuple(lens)
        self.name = "routing/ops=%s/lens=%s" % ("+".join(map(str, shape)), "x".join(map(str, lens)))
        self.bounds = {"tags_per_operation": list(shape), "tag_lengths": list(lens), "alphabet": "aAbB1-_ .é中"}

    def make_inputs(self, e):
        inp = {}
        for i, n in enumerate(self.lens):
            inp["tag%d" % i] = mk_sym_str(n, "tag%d" % i, TAG_ALPHA)
        return inp

    def _tagsets(self, inp):
        tags = [inp["tag%d" % i] for i in range(len(self.lens))]
        out, k = [], 0
        for c in self.shape:
            out.append(tags[k:k + c])
            k += c
        return out

    def run_sym(self, inp):
        return call_catching(k_routing, _I(), self._tagsets(inp))

    def run_real(self, inp):
        return call_catching(k_routing, _R(), self._tagsets(inp))

    def normalise(self, r):
        if isinstance(r, tuple):
            groups, written, tuples = r
            return ([(_simp(_file_text(f)), ops) for f, ops in groups], [(_simp(a), _simp(b)) for a, b in written],
                    sorted((_simp(a), _simp(b)) for a, b in tuples))
        return r

    def prop(self, inp, r):
        if isinstance(r, Raised):
            return True  # visible failure
        groups, written, tuples = r
        files = [_file_text(f) for f, _ in groups]
        # (1) no two groups write the same file (the later write would erase the earlier group's operations)
        if not all_distinct(files):
            return False
        # (2) every (operation, tag) pair is served by exactly one written client
        for i, tags in enumerate(self._tagsets(inp)):
            n_groups = sum(1 for _, ops in groups if i in ops)
            if n_groups < 1:
                return False
        # (3) class / module names valid, modules distinct (they are attributes of APIClient), classes distinct
        mods = [m for _, m in written]
        clss = [c for c, _ in written]
        if not (all(bool(valid_ident(x)) for x in mods) and all(bool(valid_ident(x)) for x in clss)):
            return False
        if not (all_distinct(mods) and all_distinct(clss)):
            return False
        # (4) APIClient derives exactly the written (class, module) pairs
        if len(tuples) != len(written):
            return False
        for c, m in written:
            if not any(len(c) == len(c2) and len(m) == len(m2) and bool(c == c2) and bool(m == m2) for c2, m2 in tuples):
                return False
        return True

    def describe_violation(self, inp, r):
        return "tags %r -> written groups %r classes/modules %r, APIClient tuples %r" % (
            self._tagsets(inp), [(str(_file_text(f)), o) for f, o in r[0]] if isinstance(r, tuple) else r,
            r[1] if isinstance(r, tuple) else None, r[2] if isinstance(r, tuple) else None)


def _simp(x):
    return x.simp() if is_sym(x) else x


def mk_routing(shape, lens):
    return Routing(shape, lens)


# spellings of tags that differ in case, separators and word segmentation (longer than the symbolic bound reaches)
TAG_TOKENS = ["DataSources", "data_sources", "datasources", "DATASOURCES", "data-sources", "Data Sources", "dataSources", "DATA_SOURCES", "ApiKeys", "APIKEYS", "api_keys", "O_AUTH", "OAUTH"]


class RoutingTokens(Routing):
    """Routing with both tags solver-chosen from TAG_TOKENS (every ordered pair)."""

    def __init__(self, shape):
        Routing.__init__(self, shape, (1,) * sum(shape))
        self.name = "routing_tokens/ops=%s" % "+".join(map(str, shape))
        self.bounds = {"tags_per_operation": list(shape), "tags": "every tuple over %r" % (TAG_TOKENS,)}

    def make_inputs(self, e):
        return {"tag%d" % i: TAG_TOKENS[e.choose(len(TAG_TOKENS), "tok%d" % i)] for i in range(len(self.lens))}


def mk_routing_tokens(shape):
    return RoutingTokens(shape)


class ClientNames(Obligation):
    """Method names are unique inside every written tag client, whatever tag (first or not) puts two operations together."""

    functions = ["pyopenapi_gen.emitters.endpoints_emitter:EndpointsEmitter._deduplicate_operation_ids_globally",
                 "pyopenapi_gen.emitters.endpoints_emitter:EndpointsEmitter.emit"]
    alphabet = ID_ALPHA
    TAGSETS = {"shared_second": [["x", "c"], ["c"]], "shared_second_rev": [["c"], ["x", "c"]], "both_second": [["x", "c"], ["y", "c"]],
               "three": [["x", "c"], ["c"], ["c", "x"]],
               # different spellings of ONE tag end up in one client: names must be unique there too
               "case_variants": [["Users"], ["users"]], "punct_variants": [["user-data"], ["user_data"]], "variant_second": [["x", "Users"], ["users"]]}

    def __init__(self, shape, lens):
        self.shape, self.lens = shape, tuple(lens)
        self.name = "client_names/%s/lens=%s" % (shape, "x".join(map(str, lens)))
        self.bounds = {"tag_assignment": self.TAGSETS[shape], "operationId_lengths": list(lens), "alphabet": "aAbB12_- .{"}

    def make_inputs(self, e):
        return {"id%d" % i: mk_sym_str(n, "id%d" % i, ID_ALPHA) for i, n in enumerate(self.lens)}

    def _ids(self, inp):
        return [inp["id%d" % i] for i in range(len(self.lens))]

    def run_sym(self, inp):
        return call_catching(k_routing, _I(), self.TAGSETS[self.shape], self._ids(inp), True)

    def run_real(self, inp):
        return call_catching(k_routing, _R(), self.TAGSETS[self.shape], self._ids(inp), True)

    def normalise(self, r):
        return [[_simp(x) for x in g] for g in r] if isinstance(r, list) else r

    def prop(self, inp, r):
        if isinstance(r, Raised):
            return True
        return all(all(bool(valid_ident(x)) for x in g) and all_distinct(g) for g in r)

    def describe_violation(self, inp, r):
        return "operationIds %r with tags %r -> method names per client %r (a duplicate name shadows an operation)" % (self._ids(inp), self.TAGSETS[self.shape], self.normalise(r))


def mk_client_names(shape, lens):
    return ClientNames(shape, lens)


# ------------------------------------------------------------------ K3
def k_status(P, code, as_int, sibling=False):
    ops_mod = import_module(P.__name__ + ".core.loader.operations")
    ctx_mod = import_module(P.__name__ + ".core.parsing.context")
    D = hook.SDict if _inst(P) else dict
    key = code if as_int else (hook.symint_to_str(code) if not isinstance(code, int) else str(code))
    resp = D()
    resp[key] = D(description="r")
    if sibling:
        resp["default"] = D(description="d")  # a string key next to the (possibly int) status key
    paths = D()
    paths["/x"] = D(get=D(operationId="getx", responses=resp))
    ops = ops_mod.parse_operations(paths, D(), D(), D(), ctx_mod.ParsingContext())
    return (len(ops), [r.status_code for r in ops[0].responses] if ops else None)


class StatusKey(Obligation):
    functions = ["pyopenapi_gen.core.loader.operations.parser:parse_operations", "pyopenapi_gen.core.loader.responses.parser:parse_response"]

    def __init__(self, as_int, sibling=False):
        self.as_int, self.sibling = as_int, sibling
        self.name = "status_key/%s%s" % ("int" if as_int else "str", "+default" if sibling else "")
        self.bounds = {"status": "symbolic int 100..599", "key_type": "int (YAML unquoted)" if as_int else "str"}

    def make_inputs(self, e):
        return {"code": mk_sym_int("code", 100, 599)}

    def run_sym(self, inp):
        return call_catching(k_status, _I(), inp["code"], self.as_int, self.sibling)

    def run_real(self, inp):
        return call_catching(k_status, _R(), inp["code"], self.as_int, self.sibling)

    def normalise(self, r):
        if isinstance(r, tuple) and r[1]:
            return (r[0], [_simp(x) for x in r[1]])
        return r

    def prop(self, inp, r):
        if isinstance(r, Raised):
            return True
        n, codes = r
        if n != 1 or not codes or len(codes) != (2 if self.sibling else 1):
            return False
        want = hook.symint_to_str(inp["code"]) if not isinstance(inp["code"], int) else str(inp["code"])
        got = [c for c in codes if not (isinstance(c, str) and c == "default")]
        if len(got) != 1:
            return False
        got = got[0]
        return len(got) == len(want) and (got == want)

    def describe_violation(self, inp, r):
        return "response key %r (%s) -> %r (need one operation carrying that status)" % (inp["code"], "int" if self.as_int else "str", r)


def mk_status(as_int, sibling=False):
    return StatusKey(as_int, sibling)


# ------------------------------------------------------------------ K4
METHODS = ["get", "put", "post", "delete", "options", "head", "patch", "trace"]  # OpenAPI 3 Path Item operation fields
SIBLINGS = [None, "parameters", "summary", "description", "servers", "x-internal"]


BODIES = {None: None,
          "json_schema": {"content": {"application/json": {"schema": {"type": "object"}}}},
          "octet_no_schema": {"content": {"application/octet-stream": {}}},
          "json_example_only": {"content": {"application/json": {"example": {"a": 1}}}},
          "two_media_one_bare": {"content": {"application/json": {"schema": {"type": "string"}}, "text/plain": {}}},
          "no_content": {"description": "body", "required": True}}


def k_methods(P, m1, m2, sibling, opid, body=None):
    """one path item carrying operations under the methods m1 and m2 (m2 may equal m1 -> one operation) next to a
    non-operation field; the first operation may declare a request body (a media type object need not carry a schema)
    -> sorted (method, path) pairs out"""
    ops_mod = import_module(P.__name__ + ".core.loader.operations")
    ctx_mod = import_module(P.__name__ + ".core.parsing.context")
    D = hook.SDict if _inst(P) else dict
    item = D()
    if sibling == "parameters":
        item["parameters"] = []
    elif sibling == "servers":
        item["servers"] = [D(url="/")]
    elif sibling is not None:
        item[sibling] = "text"
    item[m1] = D(operationId=opid, responses=OK_RESP)
    if BODIES[body] is not None:
        item[m1]["requestBody"] = copy.deepcopy(BODIES[body])
    if m2 != m1:
        item[m2] = D(responses=OK_RESP)
    paths = D()
    paths["/x"] = item
    ops = ops_mod.parse_operations(paths, D(), D(), D(), ctx_mod.ParsingContext())
    return sorted((o.method.value.upper(), o.path) for o in ops)


class Methods(Obligation):
    functions = ["pyopenapi_gen.core.loader.operations.parser:parse_operations"]
    alphabet = ID_ALPHA

    def __init__(self, n, vary="fields"):
        self.n, self.vary = n, vary
        self.name = "methods/id_len=%d" % n + ("" if vary == "fields" else "/bodies")
        self.bounds = {"methods": METHODS, "non-operation sibling field": SIBLINGS, "operationId_len": n, "request_body_of_first_operation": [str(b) for b in BODIES]}

    def make_inputs(self, e):
        if self.vary == "bodies":
            return {"m1": METHODS[e.choose(len(METHODS), "m1")], "m2": ["get", "post"][e.choose(2, "m2")], "sibling": None,
                    "body": list(BODIES)[1 + e.choose(len(BODIES) - 1, "body")], "opid": mk_sym_str(self.n, "opid", ID_ALPHA)}
        return {"m1": METHODS[e.choose(len(METHODS), "m1")], "m2": METHODS[e.choose(len(METHODS), "m2")], "sibling": SIBLINGS[e.choose(len(SIBLINGS), "sib")],
                "body": None, "opid": mk_sym_str(self.n, "opid", ID_ALPHA)}

    def run_sym(self, inp):
        return call_catching(k_methods, _I(), inp["m1"], inp["m2"], inp["sibling"], inp["opid"], inp.get("body"))

    def run_real(self, inp):
        return call_catching(k_methods, _R(), inp["m1"], inp["m2"], inp["sibling"], inp["opid"], inp.get("body"))

    def prop(self, inp, r):
        if isinstance(r, Raised):
            return True
        return r == sorted({(inp["m1"].upper(), "/x"), (inp["m2"].upper(), "/x")})

    def describe_violation(self, inp, r):
        return "path item with operations %s/%s (request body of the first: %s) next to %r -> operations out %r" % (inp["m1"], inp["m2"], inp.get("body"), inp["sibling"], r)


def mk_methods(n, vary="fields"):
    return Methods(n, vary)


# ------------------------------------------------------------------ K5: the clean strategy strips what FastAPI appended
FASTAPI_PATHS = ["config", "data", "userProfiles", "2fa", "a-b", "v1/users", "x", "list", "class"]
HANDLER_ALPHA = ranges_of_pts([ord(c) for c in "aAb_1"])


def k_clean(P, handler, path, method):
    """FastAPI names the operation  re.sub(r'\\W', '_', handler + path_format) + '_' + method ; under the `clean` strategy the
    client method must be the one the bare handler name gives under the `operationId` strategy
    -> (method name under clean for the FastAPI id, method name under operationId for the handler name)"""
    ops_mod = import_module(P.__name__ + ".core.loader.operations")
    ctx_mod = import_module(P.__name__ + ".core.parsing.context")
    D = hook.SDict if _inst(P) else dict
    suffix = re.sub(r"\W", "_", "/" + path) + "_" + method
    out = []
    for strat, opid in ((P.NamingStrategy.CLEAN, handler + suffix), (P.NamingStrategy.OPERATION_ID, handler)):
        paths = D()
        item = D()
        item[method] = D(operationId=opid, responses=OK_RESP)
        paths["/" + path] = item
        ops = ops_mod.parse_operations(paths, D(), D(), D(), ctx_mod.ParsingContext(), naming_strategy=strat)
        out.append(P.core.utils.NameSanitizer.sanitize_method_name(ops[0].operation_id) if len(ops) == 1 else None)
    return tuple(out)


class CleanStrips(Obligation):
    functions = ["pyopenapi_gen.core.loader.operations.parser:parse_operations",
                 "pyopenapi_gen.core.utils:NameSanitizer.clean_auto_generated_operation_id",
                 "pyopenapi_gen.core.utils:NameSanitizer.sanitize_method_name"]

    def __init__(self, n):
        self.n = n
        self.name = "clean_strips/handler_len=%d" % n
        self.bounds = {"handler_name_len": n, "handler_alphabet": "aAb_1", "paths": FASTAPI_PATHS, "methods": ["get", "post", "delete"],
                       "outside": "paths with {parameters}: the repo documents that the pattern is then not detected and the id is kept"}

    def make_inputs(self, e):
        return {"path": FASTAPI_PATHS[e.choose(len(FASTAPI_PATHS), "path")], "method": ["get", "post", "delete"][e.choose(3, "method")],
                "handler": mk_sym_str(self.n, "handler", HANDLER_ALPHA)}

    def run_sym(self, inp):
        return call_catching(k_clean, _I(), inp["handler"], inp["path"], inp["method"])

    def run_real(self, inp):
        return call_catching(k_clean, _R(), inp["handler"], inp["path"], inp["method"])

    def prop(self, inp, r):
        if isinstance(r, Raised):
            return True
        a, b = r
        if a is None or b is None:
            return False
        return len(a) == len(b) and bool(a == b) and bool(valid_ident(a))

    def describe_violation(self, inp, r):
        return "handler %r at %s /%s: FastAPI operationId under `clean` -> method %r ; the handler name itself -> %r (must agree)" % (
            inp["handler"], inp["method"].upper(), inp["path"], r[0] if isinstance(r, tuple) else r, r[1] if isinstance(r, tuple) else None)


def mk_clean(n):
    return CleanStrips(n)


# ------------------------------------------------------------------ run
def specs(tier):
    out = [(MOD, "mk_methods", (1,)), (MOD, "mk_methods", (1, "bodies")), (MOD, "mk_clean", (1,)), (MOD, "mk_clean", (2,)),] + ([] if tier == "quick" else [(MOD, "mk_clean", (3,)), (MOD, "mk_methods", (2,))]) + [ (MOD, "mk_routing_tokens", ((1, 1),)), (MOD, "mk_routing_tokens", ((2,),)), (MOD, "mk_status", (True,)), (MOD, "mk_status", (False,)), (MOD, "mk_status", (True, True)), (MOD, "mk_status", (False, True))]
    q = tier == "quick"
    for shape in ClientNames.TAGSETS:
        k = len(ClientNames.TAGSETS[shape])
        for lens in ([(1,) * k] if q else [(1,) * k, (2,) * k]):
            out.append((MOD, "mk_client_names", (shape, lens)))
    for strat in ("operationId", "clean", "path"):
        for lens in ([(1, 1), (2, 1), (2, 2)] if q else [(1, 1), (2, 1), (1, 2), (2, 2), (3, 2), (3, 3)]):
            out.append((MOD, "mk_names", (strat, "two_paths", lens)))
        for lens in ([(1, 1), (2, 2)] if q else [(1, 1), (2, 1), (2, 2), (3, 2), (3, 3)]):
            out.append((MOD, "mk_names", (strat, "two_ids", lens)))
        for lens in ([(1, 1, 1)] if q else [(1, 1, 1), (3, 1, 1), (1, 1, 3), (2, 2, 1)]):
            out.append((MOD, "mk_names", (strat, "three_ids", lens)))
        for lens in ([(2, 1)] if q else [(2, 1), (3, 2), (5, 1)]):
            out.append((MOD, "mk_names", (strat, "id_and_path", lens)))
    # (tags of 3x3 characters cost 8 CPU-hours per shape and found nothing the 3x2 / 2x2 instances did not: left out)
    # "that tag client is reachable as a property of APIClient": the client.py / mock_client.py written by the real emitters
    # for solver-chosen tag spellings (incl. names of APIClient's own members) import, and no tag property shares its
    # name with another member of the class (obligation of props/c01.py)
    out.append(("props.c01", "mk_client_package", ((1, 1),)))
    for shape, lenss in [((1, 1), [(1, 1), (2, 1), (2, 2)] if q else [(1, 1), (2, 1), (2, 2), (3, 2)]),
                         ((2,), [(1, 1), (2, 2)] if q else [(1, 1), (2, 1), (2, 2), (3, 2)]),
                         ((1, 0), [(1,), (2,)] if q else [(1,), (2,), (3,), (4,)]),
                         ((2, 1), [(1, 1, 1)] if q else [(1, 1, 1), (2, 2, 1), (2, 1, 2)])]:
        for lens in lenss:
            out.append((MOD, "mk_routing", (shape, lens)))
    return out


def run(tier, rep, only=None):
    sp = specs(tier)
    if only:
        sp = [s for s in sp if only in explore.build(s).name]
    rep.bounds = {"operations": "2-3 per document", "tag_lengths": "<=2 quick / <=3-4 thorough", "name_lengths": "<=2 quick / <=3 thorough",
                  "naming_strategies": ["operationId", "clean", "path"], "status": "100..599"}
    rep.stubs = ["EndpointVisitor, RenderContext, FileManager, pathlib.Path -> recording stubs (grouping/naming code is the repo's)",
                 "ClientVisitor.generate_client_protocol/_generate_client_implementation -> recorders of tag_tuples", "logging/warnings -> no-op"]
    rep.assumptions = ["a raised exception counts as visible failure (allowed); a warning does not", "operations carry only a 200 response and no parameters"]
    res = explore.run_all(sp, log=lambda m: print("[c07]", m, flush=True))
    for spec in sp:
        ob = explore.build(spec)
        rep.add_symx(res[ob.name], functions=ob.functions, bounds=ob.bounds)


def replay(path):
    v = json.load(open(path))["violation"]
    parts = v["obligation"].split("/")
    if parts[0] == "client_package":
        from props import c01

        return c01.replay(path)
    if parts[0] == "names":
        lens = [len(v["inputs"][k]) for k in sorted(v["inputs"])]
        ob = Names(parts[1], parts[2], lens)
    elif parts[0] == "routing_tokens":
        ob = RoutingTokens(tuple(int(x) for x in parts[1].split("=")[1].split("+")))
    elif parts[0] == "routing":
        shape = tuple(int(x) for x in parts[1].split("=")[1].split("+"))
        lens = [len(v["inputs"][k]) for k in sorted(v["inputs"])]
        ob = Routing(shape, lens)
    elif parts[0] == "methods":
        ob = Methods(int(parts[1].split("=")[1]), "bodies" if parts[-1] == "bodies" else "fields")
    elif parts[0] == "clean_strips":
        ob = CleanStrips(int(parts[1].split("=")[1]))
    elif parts[0] == "client_names":
        ob = ClientNames(parts[1], [len(v["inputs"][k]) for k in sorted(v["inputs"])])
    else:
        ob = StatusKey(parts[1].startswith("int"), parts[1].endswith("+default"))
    r = ob.run_real(v["inputs"])
    ok = bool(ob.prop(v["inputs"], r))
    print("replay %s inputs=%r -> %r holds=%s" % (v["obligation"], v["inputs"], ob.normalise(r), ok))
    return 0 if ok else 1
