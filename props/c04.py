"""C04 — Request fidelity: what the caller passes is what goes on the wire (engine E1 / symx on generated code).

The client package is generated from the template family T_req by the real generator (current /repo tree), loaded
instrumented, and each generated endpoint method is called with symbolic arguments (strings, ints, bools, None-ness of
every optional argument decided by the solver, list/dict/model arguments with symbolic leaves) against a recording
transport placed where HttpTransport.request is called.  P: exactly one request; method; URL = template with the path
values substituted; every supplied query/header/cookie argument present under its ORIGINAL name with the caller's
value, every None one absent; body keyword and content equal to an independent reference serialisation.
Two lemmas tie signature, URL and dict keys together for ALL names (not only the templates'): sanitize_method_name is
idempotent; the `{...}` variable set seen by the URL builder equals the one seen by the parameter extractor.
"""
from __future__ import annotations

import importlib
import json
import os
import subprocess
import sys

import gen
from symx import explore, hook
from symx.core import SymBool, SymInt, SymStr, is_sym, mk_sym_bool, mk_sym_int, mk_sym_str, ranges_of_pts
from symx.explore import Obligation, Raised, call_catching

MOD = "props.c04"
PKG = "cl04"
VAL = ranges_of_pts([ord(c) for c in "a/ %&=\xe9{"])
PATHCH = ranges_of_pts([ord(c) for c in "/{}aA-_1"])

ITEM = {"type": "object", "required": ["name"], "properties": {"name": {"type": "string"}, "count": {"type": "integer"},
                                                               "tagList": {"type": "array", "items": {"type": "string"}}}}


def _p(name, where, required=False, schema=None):
    return {"name": name, "in": where, "required": required, "schema": schema or {"type": "string"}}


def spec():
    ok = gen.json_resp("Item")
    jitem = {"application/json": {"schema": {"$ref": "#/components/schemas/Item"}}}
    return gen.base_spec(paths={
        "/items/{itemId}": {
            "parameters": [_p("tenant", "query"), _p("itemId", "path", True)],
            "get": {"operationId": "getItem", "parameters": [_p("page-size", "query", schema={"type": "integer"}), _p("q", "query", True),
                                                              _p("X-Trace", "header"), _p("class", "query"), _p("sid", "cookie")],
                    "responses": {"200": ok}},
            # `tenant` is declared at path level (optional) and again here (required): the operation-level one overrides it
            "delete": {"operationId": "deleteItem", "parameters": [_p("X-Reason", "header", True), _p("tenant", "query", True)], "responses": {"204": {"description": "gone"}}},
        },
        "/shops/{shop-id}/items/{n}": {"patch": {"operationId": "patchShopItem", "parameters": [_p("shop-id", "path", True), _p("n", "path", True, {"type": "integer"})],
                                                 "requestBody": {"required": True, "content": jitem}, "responses": {"200": ok}}},
        "/items": {
            "post": {"operationId": "createItem", "parameters": [_p("dryRun", "query", schema={"type": "boolean"})],
                     "requestBody": {"required": True, "content": jitem}, "responses": {"201": ok}},
            "put": {"operationId": "replaceTags", "requestBody": {"required": True, "content": {"application/json": {"schema": {"type": "array", "items": {"type": "string"}}}}},
                    "responses": {"200": ok}},
            "get": {"operationId": "listItems", "parameters": [_p("ids", "query", schema={"type": "array", "items": {"type": "string"}}), _p("sort", "query")],
                    "responses": {"200": ok}},
        },
        # request bodies on methods that rarely carry one: the declared body still goes on the wire
        "/bulk": {"delete": {"operationId": "bulkDelete", "requestBody": {"required": True, "content": {"application/json": {"schema": {"type": "array", "items": {"type": "string"}}}}},
                             "responses": {"200": ok}},
                  "get": {"operationId": "searchItems", "requestBody": {"required": True, "content": jitem}, "responses": {"200": ok}}},
        "/form": {"post": {"operationId": "sendForm", "requestBody": {"required": True, "content": {"application/x-www-form-urlencoded": {"schema": {"type": "object", "properties": {"a": {"type": "string"}}}}}},
                           "responses": {"200": ok}}},
        "/upload": {"post": {"operationId": "upload", "requestBody": {"required": True, "content": {"multipart/form-data": {"schema": {"type": "object", "properties": {"file": {"type": "string", "format": "binary"}}}}}},
                             "responses": {"200": ok}}},
        "/raw": {"post": {"operationId": "sendRaw", "parameters": [_p("n", "query")],
                          "requestBody": {"required": True, "content": {"application/octet-stream": {"schema": {"type": "string", "format": "binary"}}}}, "responses": {"200": ok}}},
        "/note": {"post": {"operationId": "sendNote", "requestBody": {"required": True, "content": {"text/plain": {"schema": {"type": "string"}}}}, "responses": {"200": ok}}},
        "/xml": {"put": {"operationId": "sendXml", "requestBody": {"required": True, "content": {"application/xml": {"schema": {"type": "string"}}}}, "responses": {"200": ok}}},
        "/snapshots/{takenAt}/{day}": {"get": {"operationId": "getSnapshot", "parameters": [_p("takenAt", "path", True, {"type": "string", "format": "date-time"}),
                                                                                            _p("day", "path", True, {"type": "string", "format": "date"}),
                                                                                            _p("since", "query", False, {"type": "string", "format": "date-time"})],
                                                "responses": {"200": ok}}},
        "/multi/{takenAt}/{n}": {"post": {"operationId": "sendMulti", "parameters": [_p("mode", "query"), _p("X-M", "header"), _p("sid", "cookie"),
                                                                                    _p("takenAt", "path", True, {"type": "string", "format": "date-time"}),
                                                                                    _p("n", "path", True, {"type": "integer"})],
                            "requestBody": {"required": True, "content": {"application/json": {"schema": {"$ref": "#/components/schemas/Item"}},
                                                                          "application/x-www-form-urlencoded": {"schema": {"type": "object"}}}},
                            "responses": {"200": ok}}},
        # a cookie next to a JSON body and nothing else: the shortest request call the generator writes (one line)
        "/notes": {"post": {"operationId": "addNote", "parameters": [_p("sid", "cookie")], "requestBody": {"required": True, "content": jitem}, "responses": {"201": ok}},
                   "put": {"operationId": "putNote", "parameters": [_p("sid", "cookie", True), _p("k", "query")], "responses": {"200": ok}}},
        # a path variable that no parameter declares, next to an optional declared parameter (required arguments come first)
        "/implicit/{vid}/{wid}": {"get": {"operationId": "getImplicit", "parameters": [_p("q", "query"), _p("wid", "path", True), _p("X-Opt", "header")], "responses": {"200": ok}}},
        # enum-typed parameters in every location (the wire carries the member's VALUE)
        "/paint/{tone}": {"get": {"operationId": "paintIt", "parameters": [
            _p("tone", "path", True, {"$ref": "#/components/schemas/Color"}), _p("color", "query", False, {"$ref": "#/components/schemas/Color"}),
            _p("colors", "query", False, {"type": "array", "items": {"$ref": "#/components/schemas/Color"}}), _p("level", "query", False, {"$ref": "#/components/schemas/Level"}),
            _p("X-Color", "header", False, {"$ref": "#/components/schemas/Color"}), _p("sid", "cookie", False, {"$ref": "#/components/schemas/Color"})],
            "responses": {"200": ok}}},
        # an object-valued query parameter (declared through `content: application/json`)
        "/find": {"get": {"operationId": "findIt", "parameters": [{"name": "flt", "in": "query", "content": {"application/json": {"schema": {"$ref": "#/components/schemas/Filter"}}}}],
                          "responses": {"200": ok}}},
        # header parameters that are not strings: httpx accepts only text as a header value
        "/tune": {"get": {"operationId": "tuneIt", "parameters": [
            _p("X-Depth", "header", False, {"type": "integer"}), _p("X-Flag", "header", False, {"type": "boolean"}),
            _p("X-Ids", "header", False, {"type": "array", "items": {"type": "integer"}}), _p("X-Name", "header", False), _p("k", "query", False, {"type": "integer"})],
            "responses": {"200": ok}}},
    }, schemas={"Item": ITEM, "Color": {"type": "string", "enum": ["red", "dark-blue"]}, "Level": {"type": "integer", "enum": [1, 2]},
                "Filter": {"type": "object", "properties": {"k": {"type": "string"}}}})


# The harness's own statement of each operation (python argument name, spec name, location, required, kind) — written from
# the template, independently of the generator.
OPS = {
    "get_item": dict(method="GET", path="/items/{itemId}", params=[
        ("item_id", "itemId", "path", True, "str"), ("q", "q", "query", True, "str"), ("tenant", "tenant", "query", False, "str"),
        ("page_size", "page-size", "query", False, "int"), ("x_trace", "X-Trace", "header", False, "str"),
        ("class_", "class", "query", False, "str"), ("sid", "sid", "cookie", False, "str")], body=None),
    "delete_item": dict(method="DELETE", path="/items/{itemId}", params=[
        ("item_id", "itemId", "path", True, "str"), ("x_reason", "X-Reason", "header", True, "str"), ("tenant", "tenant", "query", True, "str")], body=None, status=204),
    "patch_shop_item": dict(method="PATCH", path="/shops/{shop-id}/items/{n}", params=[
        ("shop_id", "shop-id", "path", True, "str"), ("n", "n", "path", True, "int")], body=("body", "json", "item")),
    "create_item": dict(method="POST", path="/items", params=[("dry_run", "dryRun", "query", False, "bool")], body=("body", "json", "item"), status=201),
    "replace_tags": dict(method="PUT", path="/items", params=[], body=("body", "json", "strlist")),
    "list_items": dict(method="GET", path="/items", params=[("ids", "ids", "query", False, "strlist"), ("sort", "sort", "query", False, "str")], body=None),
    "bulk_delete": dict(method="DELETE", path="/bulk", params=[], body=("body", "json", "strlist")),
    "search_items": dict(method="GET", path="/bulk", params=[], body=("body", "json", "item")),
    "send_form": dict(method="POST", path="/form", params=[], body=("form_data", "data", "strdict")),
    "upload": dict(method="POST", path="/upload", params=[], body=("files", "files", "filedict")),
    "send_raw": dict(method="POST", path="/raw", params=[("n", "n", "query", False, "str")], body=("bytes_content", "data", "bytes")),
    "send_note": dict(method="POST", path="/note", params=[], body=("bytes_content", "data", "bytes")),
    "send_xml": dict(method="PUT", path="/xml", params=[], body=("bytes_content", "data", "bytes")),
    "get_snapshot": dict(method="GET", path="/snapshots/{takenAt}/{day}", params=[
        ("taken_at", "takenAt", "path", True, "datetime"), ("day", "day", "path", True, "date"), ("since", "since", "query", False, "datetime")], body=None),
    "add_note": dict(method="POST", path="/notes", params=[("sid", "sid", "cookie", False, "str")], body=("body", "json", "item"), status=201),
    "put_note": dict(method="PUT", path="/notes", params=[("sid", "sid", "cookie", True, "str"), ("k", "k", "query", False, "str")], body=None),
    "get_implicit": dict(method="GET", path="/implicit/{vid}/{wid}", params=[
        ("vid", "vid", "path", True, "str"), ("wid", "wid", "path", True, "str"), ("q", "q", "query", False, "str"), ("x_opt", "X-Opt", "header", False, "str")], body=None),
    "paint_it": dict(method="GET", path="/paint/{tone}", params=[
        ("tone", "tone", "path", True, "color"), ("color", "color", "query", False, "color"), ("colors", "colors", "query", False, "colorlist"),
        ("level", "level", "query", False, "level"), ("x_color", "X-Color", "header", False, "color"), ("sid", "sid", "cookie", False, "color")], body=None),
    "send_multi/json": dict(method="POST", path="/multi/{takenAt}/{n}", py="send_multi", params=[
        ("taken_at", "takenAt", "path", True, "datetime"), ("n", "n", "path", True, "int"), ("mode", "mode", "query", None, "str"), ("x_m", "X-M", "header", None, "str"),
        ("sid", "sid", "cookie", None, "str")], body=("body", "json", "item")),
    "send_multi/form": dict(method="POST", path="/multi/{takenAt}/{n}", py="send_multi", params=[
        ("taken_at", "takenAt", "path", True, "datetime"), ("n", "n", "path", True, "int"), ("mode", "mode", "query", None, "str"), ("x_m", "X-M", "header", None, "str"),
        ("sid", "sid", "cookie", None, "str")], body=("data", "data", "strdict")),
}


def root_dir():
    return gen.workdir("c04")


_PK = {}


def pkgs(instrumented):
    if instrumented not in _PK:
        root = root_dir()
        if root not in sys.path:
            sys.path.insert(0, root)
        name = hook.add_root(PKG, os.path.join(root, PKG)) if instrumented else PKG
        _PK[instrumented] = (importlib.import_module(name + ".endpoints.default"), importlib.import_module(name + ".models"))
    return _PK[instrumented]


class Rec:
    def __init__(self, status=200):
        self.calls = []
        self.status = status

    async def request(self, method, url, **kw):
        self.calls.append((method, url, kw))
        st = self.status

        class R:
            status_code = st
            text = "{}"
            content = b"{}"
            headers = {"content-type": "application/json"}

            def json(self):
                return {"name": "n"}

        return R()


def drive(coro):
    try:
        coro.send(None)
    except StopIteration as e:
        return e.value
    raise RuntimeError("coroutine suspended")


BYTES = [b"", b"\x00\xff", b"abc"]
import datetime as _dt

DATETIMES = [_dt.datetime(2024, 3, 9, 14, 30, 0), _dt.datetime(1999, 12, 31, 23, 59, 59, 500000, tzinfo=_dt.timezone.utc)]
DATES = [_dt.date(2024, 2, 29), _dt.date(1970, 1, 1)]


def build_arg(models, kind, v):
    """v: the symbolic/concrete leaves chosen by make_inputs for this argument -> the Python value handed to the method"""
    if kind in ("str", "int", "bool"):
        return v
    if kind == "strlist":
        return list(v)
    if kind == "strdict":
        return dict(v) if not is_sym(next(iter(v.values()), "")) else hook.SDict(v)
    if kind == "item":
        kw = {"name": v["name"]}
        if v.get("count") is not None:
            kw["count"] = v["count"]
        if v.get("tag_list") is not None:
            kw["tag_list"] = list(v["tag_list"])
        return models.Item(**kw)
    if kind == "bytes":
        return BYTES[v]
    if kind == "datetime":
        return DATETIMES[v]
    if kind == "date":
        return DATES[v]
    if kind == "filedict":
        import io

        return {"file": io.BytesIO(BYTES[v])}  # the declared type is dict[str, IO[Any]]
    if kind == "color":
        return list(models.Color)[v]
    if kind == "colorlist":
        return [list(models.Color)[i] for i in v]
    if kind == "level":
        return list(models.Level)[v]
    raise KeyError(kind)


ENUM_VALUES = {"color": ["red", "dark-blue"], "level": [1, 2]}


def _enum_wire(kind, v):
    if kind == "colorlist":
        return [ENUM_VALUES["color"][i] for i in v]
    return ENUM_VALUES[kind][v]


def call(instrumented, opname, args):
    ep, models = pkgs(instrumented)
    op = OPS[opname]
    rec = Rec(op.get("status", 200))
    c = ep.DefaultClient(rec, "http://h")
    kw = {}
    for py, orig, where, req, kind in op["params"]:
        if py in args:
            kw[py] = build_arg(models, kind, args[py])
    if op["body"]:
        py, _, kind = op["body"]
        kw[py] = build_arg(models, kind, args[py])
    r = drive(getattr(c, op.get("py", opname))(**kw))
    out = []
    for m, u, k in rec.calls:
        out.append((m, u, {kk: _plain(vv, kk) for kk, vv in k.items()}))
    return out


def _plain(v, where=None):
    """what the recording transport notes.  An Enum member is noted as httpx would put it on the wire: `str(member)` in
    the query string and in cookies (httpx's primitive_value_to_str), the underlying text for a str-valued header
    (`value.encode()`), a marker for any other header value (httpx raises TypeError there)."""
    import enum

    if hasattr(v, "getvalue"):
        return ("io", v.getvalue())
    if isinstance(v, dict):
        return [(k, _plain(x, where)) for k, x in v.items()]
    if isinstance(v, (list, tuple)):
        return [_plain(x, where) for x in v]
    if isinstance(v, enum.Enum):
        if where == "headers":
            return str.__str__(v) if isinstance(v, str) else ("httpx TypeError: header value", repr(v))
        return str(v)
    return v


def _veq(a, b):
    """equality of a sent value and an expected value (forks on symbolic content)"""
    if isinstance(b, list):
        return isinstance(a, list) and len(a) == len(b) and all(_veq(x, y) for x, y in zip(a, b))
    if isinstance(b, (str, SymStr)):
        return isinstance(a, (str, SymStr)) and len(a) == len(b) and bool(a == b)
    if isinstance(b, (bool, SymBool)):
        return isinstance(a, (bool, SymBool)) and bool(a == b)
    if isinstance(b, (int, SymInt)):
        return isinstance(a, (int, SymInt)) and not isinstance(a, (bool, SymBool)) and bool(a == b)
    return a == b


def _items_eq(sent, exp):
    """sent: list of (key, value) or None; exp: list of (key, value)"""
    if not exp:
        return sent is None or sent == []
    if not isinstance(sent, list) or len(sent) != len(exp):
        return False
    for k, v in exp:
        hit = [x for kk, x in sent if kk == k]
        if len(hit) != 1 or not _veq(hit[0], v):
            return False
    return True


def reference_body(kind, v):
    if kind == "item":
        out = [("name", v["name"])]
        if v.get("count") is not None:
            out.append(("count", v["count"]))
        # an Item built without tag_list carries the dataclass default (an empty list): that IS the argument's JSON
        out.append(("tagList", list(v["tag_list"]) if v.get("tag_list") is not None else []))
        return out
    if kind == "strlist":
        return list(v)
    if kind == "strdict":
        return list(v.items())
    if kind == "bytes":
        return BYTES[v]
    if kind == "filedict":
        return [("file", ("io", BYTES[v]))]
    raise KeyError(kind)


def expected_url(op, args):
    from symx.hook import symint_to_str

    url = "http://h"
    rest = op["path"]
    while "{" in rest:
        i, j = rest.index("{"), rest.index("}")
        url = url + rest[:i]
        name = rest[i + 1:j]
        py = [p for p in op["params"] if p[1] == name and p[2] == "path"][0]
        v = args[py[0]]
        if py[4] == "datetime":
            v = DATETIMES[v].isoformat()
        elif py[4] == "date":
            v = DATES[v].isoformat()
        elif py[4] in ENUM_VALUES:
            v = _enum_wire(py[4], v)
        if isinstance(v, SymInt):
            v = symint_to_str(v)
        elif isinstance(v, int):
            v = str(v)
        url = url + v
        rest = rest[j + 1:]
    return url + rest


class RequestOb(Obligation):
    functions = [
        "pyopenapi_gen.visit.endpoint.generators.url_args_generator:EndpointUrlArgsGenerator.generate_url_and_args",
        "pyopenapi_gen.visit.endpoint.generators.request_generator:EndpointRequestGenerator.generate_request_call",
        "pyopenapi_gen.visit.endpoint.generators.signature_generator:EndpointMethodSignatureGenerator.generate_signature",
        "pyopenapi_gen.visit.endpoint.processors.parameter_processor:EndpointParameterProcessor.process_parameters",
        "pyopenapi_gen.visit.endpoint.generators.endpoint_method_generator:EndpointMethodGenerator._generate_implementation_method",
        "pyopenapi_gen.core.loader.operations.parser:parse_operations",
        "pyopenapi_gen.core.utils:DataclassSerializer.serialize",
    ]
    alphabet = VAL

    def __init__(self, opname, slen):
        self.opname, self.slen = opname, slen
        self.name = "request/%s/strlen=%d" % (opname, slen)
        self.bounds = {"operation": opname, "string_length": slen, "alphabet": "a/ %&=é{", "ints": "unbounded", "optional_arguments": "every subset"}

    def make_inputs(self, e):
        op = OPS[self.opname]
        args = {}
        n = [0]

        def leaf(kind):
            n[0] += 1
            if kind == "str":
                return mk_sym_str(self.slen, "s%d" % n[0], VAL)
            if kind == "int":
                return mk_sym_int("i%d" % n[0], -999, 99999)
            if kind == "bool":
                return mk_sym_bool("b%d" % n[0])
            if kind == "strlist":
                return [mk_sym_str(self.slen, "l%d_%d" % (n[0], k), VAL) for k in range(e.choose(3))]
            if kind == "strdict":
                return {"a": mk_sym_str(self.slen, "d%d" % n[0], VAL)} if e.choose(2) else {}
            if kind == "item":
                v = {"name": mk_sym_str(self.slen, "nm%d" % n[0], VAL)}
                v["count"] = mk_sym_int("c%d" % n[0], -999, 99999) if e.choose(2) else None
                v["tag_list"] = [mk_sym_str(self.slen, "t%d_%d" % (n[0], k), VAL) for k in range(e.choose(3))] if e.choose(2) else None
                return v
            if kind in ("bytes", "filedict"):
                return e.choose(len(BYTES))
            if kind in ("datetime", "date", "color", "level"):
                return e.choose(2)
            if kind == "colorlist":
                return [e.choose(2) for _ in range(e.choose(3))]
            raise KeyError(kind)

        for py, orig, where, req, kind in op["params"]:
            if req is True:
                args[py] = leaf(kind)
            elif req is None:  # positional-but-nullable (overload implementation signature): value or None, always passed
                args[py] = leaf(kind) if e.choose(2) else None
            elif e.choose(2):
                args[py] = leaf(kind)
        if op["body"]:
            args[op["body"][0]] = leaf(op["body"][2])
        return {"args": args}

    def run_sym(self, inp):
        return call_catching(call, True, self.opname, inp["args"])

    def run_real(self, inp):
        return call_catching(call, False, self.opname, inp["args"])

    def verdict(self, inp, r):
        op = OPS[self.opname]
        args = inp["args"]
        if isinstance(r, Raised):
            return False, "the call raised %r" % (r,)
        if len(r) != 1:
            return False, "%d requests issued" % len(r)
        m, u, kw = r[0]
        if m != op["method"]:
            return False, "method %r" % (m,)
        eu = expected_url(op, args)
        if not (len(u) == len(eu) and bool(u == eu)):
            return False, "url %r, expected %r" % (u, eu)
        exp = {"query": [], "header": [], "cookie": []}
        for py, orig, where, req, kind in op["params"]:
            if where == "path":
                continue
            if py in args and args[py] is not None:
                val = args[py]
                if kind == "datetime":
                    val = DATETIMES[val].isoformat()
                elif kind == "date":
                    val = DATES[val].isoformat()
                elif kind in ("color", "level", "colorlist"):
                    val = _enum_wire(kind, val)
                exp[where].append((orig, val))
        for where, key in (("query", "params"), ("header", "headers"), ("cookie", "cookies")):
            if not _items_eq(kw.get(key), exp[where]):
                return False, "%s sent %r, expected %r" % (key, kw.get(key), exp[where])
        bodykeys = {"json", "data", "files", "content"}
        if op["body"]:
            py, key, kind = op["body"]
            want = reference_body(kind, args[py])
            got = kw.get(key)
            if isinstance(want, list) and want and isinstance(want[0], tuple):
                ok = _items_eq(got, want) if want else got in (None, [])
            elif isinstance(want, list):
                ok = _veq(got, want)
            else:
                ok = got == want
            if not ok:
                return False, "body keyword %s sent %r, expected %r" % (key, got, want)
            for k in bodykeys - {key}:
                if kw.get(k) is not None:
                    return False, "unexpected body keyword %s=%r" % (k, kw.get(k))
        else:
            for k in bodykeys:
                if kw.get(k) is not None:
                    return False, "unexpected body keyword %s=%r" % (k, kw.get(k))
        return True, ""

    def prop(self, inp, r):
        return self.verdict(inp, r)[0]

    def known(self, inp, r):
        ok, why = self.verdict(inp, r)
        if ok:
            return None
        if why.startswith("cookies sent"):
            return "cookie-params-never-sent"
        if self.opname.startswith("send_multi/") and (why.startswith("params sent") or why.startswith("headers sent")):
            return "multi-content-drops-params"
        return None

    def describe_violation(self, inp, r):
        return "%s(%r): %s" % (self.opname, inp["args"], self.verdict(inp, r)[1])


def mk(opname, slen):
    return RequestOb(opname, slen)


# ------------------------------------------------------------------ typed header parameters down to the httpx boundary
class _HttpxContract:
    """Stands where httpx.AsyncClient is: records the call and enforces httpx's own contract for header values
    (`Header value must be str or bytes`, httpx/_models.py: _normalize_header_value)."""

    def __init__(self):
        self.calls = []

    async def request(self, method, url, **kw):
        for k, v in (kw.get("headers") or {}).items():
            if not isinstance(v, (str, bytes, SymStr)):
                raise TypeError("Header value must be str or bytes, not %s" % type(v).__name__)
        self.calls.append((method, url, kw))

        class R:
            status_code = 200
            text = ""
            headers = {}

            def json(self):
                return {"name": "n"}

        return R()


def call_typed_headers(instrumented, args):
    """the generated `tune_it` on the client package's OWN HttpxTransport (core/http_transport.py as copied into the client)"""
    ep, models = pkgs(instrumented)
    tr = importlib.import_module(ep.__name__.rsplit(".endpoints.", 1)[0] + ".core.http_transport")
    import httpx

    real = httpx.AsyncClient
    try:
        httpx.AsyncClient = lambda **kw: None
        t = tr.HttpxTransport(base_url="http://h")
    finally:
        httpx.AsyncClient = real
    stub = _HttpxContract()
    t._client = stub
    c = ep.DefaultClient(t, "http://h")
    kw = {k: (list(v) if isinstance(v, list) else v) for k, v in args.items()}
    drive(c.tune_it(**kw))
    return [(m, u, {kk: _plain(vv, kk) for kk, vv in k.items()}) for m, u, k in stub.calls]


class TypedHeaders(Obligation):
    functions = ["pyopenapi_gen.visit.endpoint.generators.url_args_generator:EndpointUrlArgsGenerator.generate_url_and_args",
                 "pyopenapi_gen.core.http_transport:HttpxTransport.request", "pyopenapi_gen.core.http_transport:HttpxTransport._prepare_headers",
                 "pyopenapi_gen.core.utils:DataclassSerializer.serialize"]
    alphabet = VAL

    def __init__(self, slen):
        self.slen = slen
        self.name = "typed_headers/strlen=%d" % slen
        self.bounds = {"operation": "tune_it: header parameters integer, boolean, array of integer, string; one integer query parameter", "ints": "-999..99999", "array_length": "0..2",
                       "optional_arguments": "every subset", "string_length": slen}

    def make_inputs(self, e):
        a = {}
        if e.choose(2):
            a["x_depth"] = mk_sym_int("d", -999, 99999)
        if e.choose(2):
            a["x_flag"] = mk_sym_bool("f")
        if e.choose(2):
            a["x_ids"] = [mk_sym_int("i%d" % k, -999, 99999) for k in range(e.choose(3))]
        if e.choose(2):
            a["x_name"] = mk_sym_str(self.slen, "n", VAL)
        if e.choose(2):
            a["k"] = mk_sym_int("k", -999, 99999)
        return {"args": a}

    def run_sym(self, inp):
        return call_catching(call_typed_headers, True, inp["args"])

    def run_real(self, inp):
        return call_catching(call_typed_headers, False, inp["args"])

    def verdict(self, inp, r):
        from symx.hook import symint_to_str

        a = inp["args"]
        if isinstance(r, Raised):
            return False, "the call raised %r" % (r,)
        if len(r) != 1:
            return False, "%d requests reached httpx" % len(r)
        m, u, kw = r[0]

        def num(x):
            return symint_to_str(x) if isinstance(x, SymInt) else str(x)

        exp = []
        if "x_depth" in a:
            exp.append(("X-Depth", num(a["x_depth"])))
        if "x_flag" in a:
            exp.append(("X-Flag", "true" if bool(a["x_flag"]) else "false"))
        if "x_ids" in a:
            parts = [num(x) for x in a["x_ids"]]
            txt = parts[0] if parts else ""
            for q in parts[1:]:
                txt = txt + "," + q
            exp.append(("X-Ids", txt))
        if "x_name" in a:
            exp.append(("X-Name", a["x_name"]))
        if not _items_eq(kw.get("headers"), exp):
            return False, "headers handed to httpx %r, expected %r" % (kw.get("headers"), exp)
        if not _items_eq(kw.get("params"), [("k", a["k"])] if "k" in a else []):
            return False, "params handed to httpx %r" % (kw.get("params"),)
        return True, ""

    def prop(self, inp, r):
        return self.verdict(inp, r)[0]

    def describe_violation(self, inp, r):
        return "tune_it(%r): %s" % (inp["args"], self.verdict(inp, r)[1])


class ObjectParam(Obligation):
    """An object-valued query parameter has to reach httpx as TEXT (its JSON rendering): httpx renders anything else with
    str(), i.e. as a Python repr."""

    functions = ["pyopenapi_gen.visit.endpoint.generators.url_args_generator:EndpointUrlArgsGenerator.generate_url_and_args", "pyopenapi_gen.core.utils:DataclassSerializer.serialize"]
    alphabet = VAL

    def __init__(self, slen):
        self.slen = slen
        self.name = "object_param/strlen=%d" % slen
        self.bounds = {"operation": "find_it: query parameter `flt` declared with content application/json, schema {k: string}", "string_length": slen}

    def make_inputs(self, e):
        return {"k": mk_sym_str(self.slen, "k", VAL)}

    def _run(self, inst, inp):
        ep, models = pkgs(inst)
        rec = Rec(200)
        c = ep.DefaultClient(rec, "http://h")
        cls = [v for n, v in vars(models).items() if n.startswith("Filter")][0]
        drive(c.find_it(flt=cls(k=inp["k"])))
        return [(m, u, dict(k)) for m, u, k in rec.calls]

    def run_sym(self, inp):
        return call_catching(self._run, True, inp)

    def run_real(self, inp):
        return call_catching(self._run, False, inp)

    def normalise(self, r):
        return [(m, u, {k: _plain(v, k) for k, v in kw.items()}) for m, u, kw in r] if isinstance(r, list) else r

    def prop(self, inp, r):
        if isinstance(r, Raised) or len(r) != 1:
            return False
        v = (r[0][2].get("params") or {}).get("flt")
        return isinstance(v, (str, SymStr))

    def known(self, inp, r):
        return None if self.prop(inp, r) else "object-query-parameter-sent-as-python-repr"

    def describe_violation(self, inp, r):
        return "find_it(flt=Filter(k=%r)): params handed to httpx %r - the object is not rendered as text" % (inp["k"], self.normalise(r))


def mk_object_param(slen):
    return ObjectParam(slen)


def mk_typed_headers(slen):
    return TypedHeaders(slen)


# ------------------------------------------------------------------ lemmas over all names
def _I():
    hook.install()
    import sxi_pyopenapi_gen as P  # noqa

    return P


def _R():
    import pyopenapi_gen as P

    return P


class Idempotent(Obligation):
    """sanitize_method_name(sanitize_method_name(s)) == sanitize_method_name(s): the signature sanitises a parameter name
    twice (processor + generator), the URL f-string and the dict builders once; the pieces agree iff the function is idempotent."""

    functions = ["pyopenapi_gen.core.utils:NameSanitizer.sanitize_method_name"]

    def __init__(self, n, fn="sanitize_method_name"):
        self.n, self.fn = n, fn
        self.name = "lemma/%s_idempotent/len=%d" % ("sanitize" if fn == "sanitize_method_name" else fn, n)
        self.functions = ["pyopenapi_gen.core.utils:NameSanitizer.%s" % fn]
        self.bounds = {"string_length": n, "alphabet": "SIGMA(144)"}

    def make_inputs(self, e):
        return {"s": mk_sym_str(self.n)}

    def _k(self, P, s):
        f = getattr(P.core.utils.NameSanitizer, self.fn)
        a = f(s)
        return (a, f(a))

    def run_sym(self, inp):
        return call_catching(self._k, _I(), inp["s"])

    def run_real(self, inp):
        return call_catching(self._k, _R(), inp["s"])

    def normalise(self, r):
        return tuple(x.simp() if is_sym(x) else x for x in r) if isinstance(r, tuple) else r

    def prop(self, inp, r):
        if isinstance(r, Raised):
            return False
        a, b = r
        return len(a) == len(b) and bool(a == b)

    def describe_violation(self, inp, r):
        return "%s(%r) = %r but sanitising again gives %r" % (self.fn, inp["s"], r[0], r[1])


class PathVars(Obligation):
    """For every path string: the variables the URL builder substitutes (regex {([^}]+)}) are exactly the ones the operation
    post-processor / parameter extractor declares as path parameters, so every `{x}` in the f-string has an argument."""

    functions = ["pyopenapi_gen.visit.endpoint.generators.url_args_generator:EndpointUrlArgsGenerator._build_url_with_path_vars",
                 "pyopenapi_gen.visit.endpoint.processors.parameter_processor:EndpointParameterProcessor.process_parameters"]
    alphabet = PATHCH

    def __init__(self, n):
        self.n = n
        self.name = "lemma/path_variables/len=%d" % n
        self.bounds = {"path_length": n, "alphabet": "/{}aA-_1"}

    def make_inputs(self, e):
        return {"path": mk_sym_str(self.n, "p", PATHCH)}

    def _k(self, P, path):
        ug = importlib.import_module(P.__name__ + ".visit.endpoint.generators.url_args_generator")
        pp = importlib.import_module(P.__name__ + ".visit.endpoint.processors.parameter_processor")
        rc = importlib.import_module(P.__name__ + ".context.render_context")
        full = "/" + path
        expr = ug.EndpointUrlArgsGenerator({})._build_url_with_path_vars(full)
        op = P.IROperation(operation_id="op", method=P.HTTPMethod.GET, path=full, summary=None, description=None, parameters=[],
                           request_body=None, responses=[], tags=[])
        ctx = rc.RenderContext(core_package_name="core", package_root_for_generated_code="/tmp/x", overall_project_root="/tmp")
        ctx.set_current_file("/tmp/x/endpoints/e.py")
        ordered, _, _ = pp.EndpointParameterProcessor({}).process_parameters(op, ctx)
        # (undeclared path variables are added from a set: their order follows the hash seed - C09's subject - so the
        # comparison of witnesses sorts them, see normalise)
        return (expr, [p["name"] for p in ordered if p.get("param_in") == "path"])

    def run_sym(self, inp):
        return call_catching(self._k, _I(), inp["path"])

    def run_real(self, inp):
        return call_catching(self._k, _R(), inp["path"])

    def normalise(self, r):
        if isinstance(r, tuple):
            return (r[0].simp() if is_sym(r[0]) else r[0], sorted(str(x.simp() if is_sym(x) else x) for x in r[1]))
        return r

    @staticmethod
    def well_formed(path):
        """OpenAPI path templating: braces balanced, not nested, variable names non-empty and free of '/'."""
        depth = 0
        cur = 0
        for i in range(len(path)):
            c = path[i]
            if bool(c == "{"):
                if depth:
                    return False
                depth, cur = 1, 0
            elif bool(c == "}"):
                if not depth or cur == 0:
                    return False
                depth = 0
            elif depth:
                if bool(c == "/"):
                    return False
                cur += 1
        return depth == 0

    def prop(self, inp, r):
        if not self.well_formed(inp["path"]):
            return True  # not a valid path template: outside the property's "accepted documents"
        if isinstance(r, Raised):
            return True  # visible failure at generation time
        expr, declared = r
        # variables used by the f-string: text between '{' and '}' after the fixed prefix f"{self.base_url}
        body = expr[len('f"{self.base_url}'):-1]
        used = []
        i = 0
        n = len(body)
        while i < n:
            if bool(body[i] == "{"):
                j = i + 1
                while j < n and not bool(body[j] == "}"):
                    j += 1
                if j >= n:
                    return False  # unbalanced brace inside an f-string: the emitted line does not parse
                used.append(body[i + 1:j])
                i = j + 1
            elif bool(body[i] == "}"):
                return False
            else:
                i += 1
        for u in used:
            if not any(len(u) == len(d) and bool(u == d) for d in declared):
                return False
        return True

    def describe_violation(self, inp, r):
        return "path %r: URL expression %r uses a variable that is not a declared path argument %r (or has unbalanced braces)" % ("/" + inp["path"], r[0], r[1])


def mk_idem(n, fn="sanitize_method_name"):
    return Idempotent(n, fn)


def mk_pathvars(n):
    return PathVars(n)


# ------------------------------------------------------------------ parameters named like the method's own identifiers
NPKG = "cl04n"
IMPLICIT_ARGS = {"self"}  # a parameter with this identifier duplicates an argument: C01's listed finding, not a request-fidelity case


def harvest_tokens(root):
    """lower-case identifiers of the CODE of the generated endpoints module (every name the method templates use)"""
    import io
    import keyword
    import tokenize

    text = open(os.path.join(root, PKG, "endpoints", "default.py"), encoding="utf-8").read()
    toks = set()
    for tk in tokenize.generate_tokens(io.StringIO(text).readline):
        if tk.type == tokenize.NAME and tk.string == tk.string.lower() and not keyword.iskeyword(tk.string) and len(tk.string) > 1:
            toks.add(tk.string)
    return sorted(toks - IMPLICIT_ARGS)


def named_spec(tokens):
    ok = gen.json_resp(schema={"type": "string"})
    paths = {}
    for i, t in enumerate(tokens):
        paths["/q/%d" % i] = {"get": {"operationId": "q%d" % i, "parameters": [_p(t, "query")], "responses": {"200": ok}}}
        paths["/h/%d" % i] = {"get": {"operationId": "h%d" % i, "parameters": [_p(t, "header"), _p("zq", "query")], "responses": {"200": ok}}}
        paths["/c/%d" % i] = {"get": {"operationId": "c%d" % i, "parameters": [_p(t, "cookie", True), _p("zh", "header")], "responses": {"200": ok}}}
    return gen.base_spec(paths=paths)


_NP = {}


def named_pkgs(instrumented):
    if instrumented not in _NP:
        root = root_dir()
        if root not in sys.path:
            sys.path.insert(0, root)
        name = hook.add_root(NPKG, os.path.join(root, NPKG)) if instrumented else NPKG
        _NP[instrumented] = importlib.import_module(name + ".endpoints.default")
    return _NP[instrumented]


def tokens_now():
    return json.load(open(os.path.join(root_dir(), "tokens.json")))


def call_named(instrumented, kind, idx, value, other):
    import inspect

    ep = named_pkgs(instrumented)
    rec = Rec(200)
    c = ep.DefaultClient(rec, "http://h")
    m = getattr(c, "%s%d" % (kind, idx))
    sibling = {"q": None, "h": "zq", "c": "zh"}[kind]
    names = [p for p in inspect.signature(m).parameters if p != sibling]
    if len(names) != 1:
        return ("SIGNATURE", names)
    kw = {}
    if value is not None:
        kw[names[0]] = value
    if sibling and other is not None:
        kw[sibling] = other
    drive(m(**kw))
    return [(mm, u, {kk: _plain(vv) for kk, vv in k.items()}) for mm, u, k in rec.calls]


class NamedParam(Obligation):
    """A query / header / cookie parameter whose NAME is any identifier the generated method uses itself (url, params,
    headers, response, cast, json ...) still goes on the wire under its own name with the caller's value."""

    functions = RequestOb.functions
    alphabet = VAL
    SHADOWING = {"url", "params", "headers", "cookies", "cast"}  # listed known finding (label param-name-shadows-method-local)

    def __init__(self, kind, slen):
        self.kind, self.slen = kind, slen
        self.name = "named_param/%s/strlen=%d" % ({"q": "query", "h": "header", "c": "cookie"}[kind], slen)
        self.bounds = {"parameter_name": "every lower-case identifier token of the generated endpoints module (harvested this run)", "location": self.name.split("/")[1],
                       "value": "symbolic string of length %d or absent" % slen, "sibling parameter": "present / absent"}

    def make_inputs(self, e):
        toks = tokens_now()
        i = e.choose(len(toks), "token")
        required = self.kind == "c"
        return {"idx": i, "token": toks[i], "value": mk_sym_str(self.slen, "v", VAL) if (required or e.choose(2, "given")) else None,
                "other": mk_sym_str(1, "o", VAL) if (self.kind != "q" and e.choose(2, "sibling")) else None}

    def run_sym(self, inp):
        return call_catching(call_named, True, self.kind, inp["idx"], inp["value"], inp["other"])

    def run_real(self, inp):
        return call_catching(call_named, False, self.kind, inp["idx"], inp["value"], inp["other"])

    def verdict(self, inp, r):
        if isinstance(r, Raised):
            return False, "the call raised %r" % (r,)
        if r and r[0] == "SIGNATURE":
            return False, "method arguments %r" % (r[1],)
        if len(r) != 1:
            return False, "%d requests issued" % len(r)
        m, u, kw = r[0]
        eu = "http://h/%s/%d" % (self.kind, inp["idx"])
        if not (len(u) == len(eu) and bool(u == eu)):
            return False, "url %r, expected %r" % (u, eu)
        exp = {"params": [], "headers": [], "cookies": []}
        key = {"q": "params", "h": "headers", "c": "cookies"}[self.kind]
        if inp["value"] is not None:
            exp[key].append((inp["token"], inp["value"]))
        if inp["other"] is not None:
            exp["params" if self.kind == "h" else "headers"].append(("zq" if self.kind == "h" else "zh", inp["other"]))
        for k in ("params", "headers", "cookies"):
            if not _items_eq(kw.get(k), exp[k]):
                return False, "%s sent %r, expected %r" % (k, kw.get(k), exp[k])
        return True, ""

    def prop(self, inp, r):
        return self.verdict(inp, r)[0]

    def known(self, inp, r):
        if inp["token"] in self.SHADOWING and not self.verdict(inp, r)[0]:
            return "param-name-shadows-method-local"
        return None

    def describe_violation(self, inp, r):
        return "%s parameter named %r, value %r: %s" % (self.name.split("/")[1], inp["token"], inp["value"], self.verdict(inp, r)[1])


def mk_named(kind, slen):
    return NamedParam(kind, slen)


def prepare():
    root = gen.workdir("c04", fresh=True)
    files, err = gen.generate(spec(), root, PKG)
    if not err:
        toks = harvest_tokens(root)
        json.dump(toks, open(os.path.join(root, "tokens.json"), "w"))
        files, err = gen.generate(named_spec(toks), root, NPKG)
    return root, err


def specs(tier):
    out = []
    for opname in OPS:
        out.append((MOD, "mk", (opname, 1)))
        if tier == "thorough":
            out.append((MOD, "mk", (opname, 2)))
    for kind in "qhc":
        out.append((MOD, "mk_named", (kind, 1)))
    # below the generated method: the bundled transport hands params / cookies / json / data to httpx unchanged, and a
    # second request on the same transport carries nothing of the first (obligations of props/c17.py without auth plugins)
    out.append((MOD, "mk_typed_headers", (1,)))
    out.append((MOD, "mk_object_param", (1,)))
    out.append(("props.c17", "mk", (0, "passthrough")))
    out.append(("props.c17", "mk", (0, "history")))
    for n in (range(0, 4) if tier == "quick" else range(0, 6)):
        out.append((MOD, "mk_idem", (n,)))
    for n in (range(0, 5) if tier == "quick" else range(0, 7)):
        out.append((MOD, "mk_pathvars", (n,)))
    return out


def run(tier, rep, only=None):
    root, err = prepare()
    rep.bounds = {"operations": sorted(OPS), "strings": "length 1 (quick) / <=2 (thorough) over 'a/ %&=é{'", "ints": "-999..99999", "optional_arguments": "every subset (None-ness solver-decided)",
                  "lemma_lengths": "sanitize idempotence <=3/5 over SIGMA; path variables <=4/6 over '/{}aA-_1'"}
    rep.stubs = ["transport -> recording stub at HttpTransport.request (httpx's URL/query encoding lies below it: outside the claim)", "response -> fixed 200 JSON object"]
    rep.assumptions = ["template family T_req of 14 operation shapes stands for the request shapes", "OPS table in props/c04.py is the independent statement of each operation"]
    if err:
        rep.violations.append({"obligation": "generate(cl04)", "inputs": {"spec": "T_req"}, "detail": "generation failed: " + err})
        return
    p = subprocess.run([sys.executable, "-c", "import cl04.endpoints.default, cl04n.endpoints.default"], cwd=root, capture_output=True, text=True, env=dict(os.environ, PYTHONPATH=root))
    if p.returncode != 0:
        rep.violations.append({"obligation": "import(cl04)", "inputs": {"spec": "T_req"}, "detail": "generated endpoints module does not import: " + (p.stderr.strip().splitlines() or ["?"])[-1][:300]})
        return
    sp = specs(tier)
    if only:
        sp = [s for s in sp if only in explore.build(s).name]
    res = explore.run_all(sp, log=lambda m: print("[c04]", m, flush=True))
    for s in sp:
        ob = explore.build(s)
        rep.add_symx(res[ob.name], functions=ob.functions, bounds=ob.bounds)


def replay(path):
    v = json.load(open(path))["violation"]
    name = v["obligation"]
    if name.startswith("transport/"):
        from props import c17

        return c17.replay(path)
    if name.startswith("request/"):
        prepare()
        parts = name.split("/")
        opname = "/".join(parts[1:-1])
        ob = RequestOb(opname, int(parts[-1].split("=")[1]))
    elif name.startswith("object_param/"):
        prepare()
        ob = ObjectParam(int(name.split("=")[1]))
    elif name.startswith("typed_headers/"):
        prepare()
        ob = TypedHeaders(int(name.split("=")[1]))
    elif name.startswith("named_param/"):
        prepare()
        ob = NamedParam({"query": "q", "header": "h", "cookie": "c"}[name.split("/")[1]], int(name.split("=")[1]))
    elif "_idempotent" in name:
        fn = name.split("/")[1][: -len("_idempotent")]
        ob = Idempotent(len(v["inputs"]["s"]), "sanitize_method_name" if fn == "sanitize" else fn)
    elif "path_variables" in name:
        ob = PathVars(len(v["inputs"]["path"]))
    else:
        print("replay of %s: re-run the check" % name)
        return 1
    r = ob.run_real(v["inputs"])
    ok = bool(ob.prop(v["inputs"], r))
    print("replay %s inputs=%r -> %r holds=%s" % (name, v["inputs"], r, ok))
    return 0 if ok else 1
