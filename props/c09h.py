"""Shared-core histories through the real generate() + the real ExceptionsEmitter (serves C09 and C11; symx).

Two clients `a` and `b` generated into one project with a shared core package; every declared error status is a symbolic
integer 400..599.  History: generate a (force); generate b (force); then a solver-chosen third step - either client,
force or not, with the same or a new (symbolic) status code.  Real code executed (instrumented): ClientGenerator.generate
(both branches, _show_diffs) and ExceptionsEmitter.emit / _is_shared_core / _update_registry; the registry file, the alias
module and every other file live in the in-memory file system of lib/memfs.py.  Stubs: loader (returns the client's
codes), ExceptionVisitor (returns those codes), alias-class rendering (text listing the codes), the other emitters
(props/c10.py stubs).  The uninstrumented code runs the same history on the real file system and both sets of effects
are compared on every path.

P (C09): a non-force re-run of a client whose document did not change, over the tree the earlier runs left, succeeds and
touches nothing.
P (C11): after every step, exception_aliases.py of the shared core lists every status code of every client generated
so far (with its current document).
"""
from __future__ import annotations

import contextlib
import hashlib
import io
import json
import os
import shutil
import tempfile
from importlib import import_module

import memfs
from props import c10
from symx import explore, hook
from symx.core import SymInt, SymStr, is_sym, mk_sym_int, join as sjoin
from symx.explore import Obligation, Raised, call_catching

hook.install()
MOD = "props.c09h"
LAYOUTS = {"sibling": ("a", "b", "core"), "nested": ("s.a", "s.b", "s.core"), "deep": ("a", "b", "x.y.core"),
           "same_leaf": ("p.client", "q.client", "core")}  # two clients whose package directories have the same name


def _codes_text(codes):
    parts = []
    for c in codes:
        parts.append(hook.symint_to_str(c) if isinstance(c, SymInt) else str(c))
    if any(is_sym(p) for p in parts):
        return c10._cat("codes:", sjoin(",", parts), "\n")
    return "codes:" + ",".join(parts) + "\n"


def _ee_stubs(io_ctx):
    class ExceptionVisitor:
        def visit(self, spec, ctx):
            codes = list(spec.codes)
            return (_codes_text(codes), [], codes)

    class RenderContext:
        def __init__(self, **kw):
            pass

        def set_current_file(self, p):
            pass

        def render_imports(self):
            return "from .exceptions import ClientError, ServerError"

    return dict(ExceptionVisitor=ExceptionVisitor, RenderContext=RenderContext)


def _gen_for_codes(self, status_codes, context):
    return _codes_text(list(status_codes)), []


def _mem_io(fs):
    def mem_open(p, mode="r", *a, **k):
        class F:
            def __enter__(s):
                s.buf, s.obj = [], None
                s.data = fs.read(memfs.parse(p)) if "r" in mode and "w" not in mode else None
                return s

            def write(s, t):
                s.buf.append(t)

            def read(s):
                return s.data

            def __exit__(s, *exc):
                if "w" in mode:
                    if s.obj is not None:
                        fs.write(memfs.parse(p), s.obj)
                    else:
                        t = s.buf[0] if len(s.buf) == 1 else ""
                        for x in s.buf[1:]:
                            t = t + x
                        fs.write(memfs.parse(p), t)
                return False

        return F()

    class Json:
        @staticmethod
        def load(f):
            return f.data

        @staticmethod
        def dump(obj, f, **kw):
            f.obj = obj

    return mem_open, Json


def _make_ir_stubs(st, codes_by_spec):
    class IR:
        schemas = {}
        operations = []
        discriminator_skip_list = set()

        def __init__(self, codes):
            self.codes = codes

    state = {}

    def fetch_spec(path):
        st.tick("load")
        state["spec"] = path
        return {"openapi": "3.0.3"}

    def load_ir_from_spec(spec, naming_strategy=None):
        st.tick("parse")
        return IR(codes_by_spec[state["spec"]])

    return fetch_spec, load_ir_from_spec


def _steps(third, ca, cb, ca2):
    """-> list of (client, spec name, force); codes_by_spec"""
    who, force, changed = third
    codes = {"a.json": [ca], "b.json": [cb], "a2.json": [ca2]}
    steps = [("a", "a.json", True), ("b", "b.json", True)]
    if who == "a":
        steps.append(("a", "a2.json" if changed else "a.json", force))
    else:
        steps.append(("b", "b.json", force))
    return steps, codes


def k_shared_sym(P, layout, third, ca, cb, ca2):
    cg = import_module(P.__name__ + ".generator.client_generator")
    ee = import_module(P.__name__ + ".emitters.exceptions_emitter")
    pa, pb, pc = LAYOUTS[layout]
    fs = memfs.MemFS()
    ver = [0]
    ow = fs.write

    def write(parts, text):
        ow(parts, text)
        ver[0] += 1
        fs.ent[fs._find(parts)].append(ver[0])

    fs.write = write
    root = ("proj",)
    fs.mkdir(root)
    import difflib

    def snap():
        return [(e[0], e[1], e[2], e[-1] if e[1] == "file" else None) for e in fs.under(root)]

    steps, codes = _steps(third, ca, cb, ca2)
    outcomes, listed, touched3 = [], [], None
    mem_open, Json = _mem_io(fs)
    for i, (client, specname, force) in enumerate(steps):
        st = c10.State(0)
        repl = c10.make_stubs(c10.SymIO(fs), st)
        fetch, load = _make_ir_stubs(st, codes)
        repl.update(fetch_spec=fetch, load_ir_from_spec=load, Path=memfs.path_factory(fs), tempfile=memfs.TempDirs(fs), shutil=memfs.Shutil(fs), os=memfs.Os(fs),
                    open=mem_open, ExceptionsEmitter=ee.ExceptionsEmitter)
        ee_repl = _ee_stubs(None)
        ee_repl.update(os=memfs.Os(fs), open=mem_open, json=Json, Path=memfs.path_factory(fs))
        saved = (difflib.unified_diff, ee.ExceptionsEmitter._generate_for_codes)
        difflib.unified_diff = c10._model_unified_diff
        ee.ExceptionsEmitter._generate_for_codes = _gen_for_codes
        before = snap()
        try:
            with c10._Patched(cg, repl), c10._Patched(ee, ee_repl):
                out = c10._run(cg, memfs.SPath(fs, root), {"a": pa, "b": pb}[client], pc, force, spec=specname)
        finally:
            difflib.unified_diff, ee.ExceptionsEmitter._generate_for_codes = saved
        outcomes.append(out)
        if i == 2:
            after = snap()
            touched3 = 0
            for b in before:
                hit = [a for a in after if memfs.peq(a[0], b[0])]
                if not hit or hit[0][1] != b[1] or hit[0][3] != b[3]:
                    touched3 += 1
            touched3 += sum(1 for a in after if not any(memfs.peq(a[0], b[0]) for b in before))
        core_parts = root + tuple(pc.split("."))
        listed.append(fs.read(core_parts + ("exception_aliases.py",)) if fs.kind(core_parts + ("exception_aliases.py",)) == "file" else None)
    return dict(outcomes=outcomes, listed=listed, touched3=touched3)


def k_shared_real(P, layout, third, ca, cb, ca2):
    cg = import_module(P.__name__ + ".generator.client_generator")
    ee = import_module(P.__name__ + ".emitters.exceptions_emitter")
    pa, pb, pc = LAYOUTS[layout]
    base = tempfile.mkdtemp(prefix="c09h_")
    root = os.path.join(base, "proj")
    os.makedirs(root)
    mytmp = os.path.join(base, "tmp")
    os.makedirs(mytmp)

    class _Tempfile:
        gettempdir = staticmethod(lambda: mytmp)
        TemporaryDirectory = staticmethod(lambda *a, **k: tempfile.TemporaryDirectory(dir=mytmp))

    def snap():
        out = {}
        for d, dirs, files in os.walk(root):
            for n in dirs:
                out[os.path.relpath(os.path.join(d, n), root)] = ("dir", None)
            for n in files:
                p = os.path.join(d, n)
                s = os.stat(p)
                out[os.path.relpath(p, root)] = ("file", (hashlib.sha256(open(p, "rb").read()).hexdigest(), s.st_mtime_ns))
        return out

    try:
        steps, codes = _steps(third, ca, cb, ca2)
        outcomes, listed, touched3 = [], [], None
        for i, (client, specname, force) in enumerate(steps):
            st = c10.State(0)
            repl = c10.make_stubs(c10.RealIO(), st)
            fetch, load = _make_ir_stubs(st, codes)
            repl.update(fetch_spec=fetch, load_ir_from_spec=load, tempfile=_Tempfile, ExceptionsEmitter=ee.ExceptionsEmitter)
            saved = ee.ExceptionsEmitter._generate_for_codes
            ee.ExceptionsEmitter._generate_for_codes = _gen_for_codes
            before = snap()
            try:
                with c10._Patched(cg, repl), c10._Patched(ee, _ee_stubs(None)):
                    out = c10._run(cg, root, {"a": pa, "b": pb}[client], pc, force, spec=specname)
            finally:
                ee.ExceptionsEmitter._generate_for_codes = saved
            outcomes.append(out)
            if i == 2:
                after = snap()
                touched3 = len([k for k in set(after) | set(before) if after.get(k) != before.get(k)])
            p = os.path.join(root, *pc.split("."), "exception_aliases.py")
            listed.append(open(p).read() if os.path.isfile(p) else None)
        return dict(outcomes=outcomes, listed=listed, touched3=touched3)
    finally:
        shutil.rmtree(base, ignore_errors=True)


THIRD = [("a", False, False), ("b", False, False), ("a", True, False), ("a", True, True), ("a", False, True), ("b", True, False)]


class SharedCoreHistory(Obligation):
    functions = ["pyopenapi_gen.generator.client_generator:ClientGenerator.generate", "pyopenapi_gen.generator.client_generator:ClientGenerator._show_diffs",
                 "pyopenapi_gen.emitters.exceptions_emitter:ExceptionsEmitter.emit", "pyopenapi_gen.emitters.exceptions_emitter:ExceptionsEmitter._is_shared_core",
                 "pyopenapi_gen.emitters.exceptions_emitter:ExceptionsEmitter._update_registry"]
    timeout_ms = 30000

    def __init__(self, layout):
        self.layout = layout
        self.name = "shared_core_history/%s" % layout
        self.bounds = {"layout (client a, client b, core)": list(LAYOUTS[layout]), "status codes": "one per document, symbolic ints 400..599 (a, b, a's changed document)",
                       "third step": "(client, force, document changed) in %r" % (THIRD,)}

    def make_inputs(self, e):
        return {"third": THIRD[e.choose(len(THIRD), "third")], "ca": mk_sym_int("ca", 400, 599), "cb": mk_sym_int("cb", 400, 599), "ca2": mk_sym_int("ca2", 400, 599)}

    def _args(self, inp):
        return (self.layout, tuple(inp["third"]), inp["ca"], inp["cb"], inp["ca2"])

    def run_sym(self, inp):
        return call_catching(k_shared_sym, c10._I(), *self._args(inp))

    def run_real(self, inp):
        return call_catching(k_shared_real, c10._R(), *self._args(inp))

    def normalise(self, r):
        if isinstance(r, dict):
            d = dict(r)
            d["listed"] = [c10._simp(x) if x is not None else None for x in d["listed"]]
            return d
        return r

    def _lists(self, text, code):
        """does the alias module text list `code`?  (text: 'codes:404,500\\n')"""
        if text is None:
            return False
        body = None
        for line in text.split("\n"):
            if len(line) >= 6 and bool(line.startswith("codes:")):
                body = line[len("codes:"):]
        if body is None:
            return False
        items = body.split(",") if len(body) else []
        want = hook.symint_to_str(code) if isinstance(code, SymInt) else str(code)
        return any(len(x) == len(want) and bool(SymStr.lift(x) == want) for x in items)

    def _items(self, text):
        if text is None:
            return None
        body = None
        for line in text.split("\n"):
            if len(line) >= 6 and bool(line.startswith("codes:")):
                body = line[len("codes:"):]
        if body is None:
            return None
        return body.split(",") if len(body) else []

    def _only(self, text, codes):
        """every code the alias module lists is one of `codes` (nothing stale from an earlier document)"""
        items = self._items(text)
        if items is None:
            return False
        wants = [hook.symint_to_str(c) if isinstance(c, SymInt) else str(c) for c in codes]
        return all(any(len(x) == len(w) and bool(SymStr.lift(x) == w) for w in wants) for x in items)

    def verdict(self, inp, r, which):
        if isinstance(r, Raised):
            return "history raised %s" % r.kind
        who, force, changed = inp["third"]
        o = r["outcomes"]
        if o[0] != "ok" or o[1] != "ok":
            return "forced generation failed: %r" % (o,)
        if which in ("c09", "both") and not force and not (changed and who == "a" and not bool(inp["ca2"] == inp["ca"])):
            if o[2] != "ok":
                return "non-force re-run of client %s over its up-to-date output ended %s" % (who, o[2])
            if r["touched3"]:
                return "non-force re-run touched %d paths" % r["touched3"]
        if which in ("c10", "both") and not force:
            # C10: whatever the outcome, a run without force leaves the project tree (incl. the shared registry) untouched,
            # and it raises when the document changed
            if r["touched3"]:
                return "non-force run of client %s touched %d paths of the existing tree" % (who, r["touched3"])
            really_changed = changed and who == "a" and not bool(inp["ca2"] == inp["ca"])
            want = "generation_error" if really_changed else "ok"
            if o[2] != want:
                return "non-force run of client %s (document %s) ended %s, expected %s" % (who, "changed" if changed else "unchanged", o[2], want)
        if which in ("c09", "both") and o[2] == "ok":
            # generation is independent of prior runs: after the last step the alias module lists the codes of the
            # current documents and nothing else (a forced regeneration with a changed document drops the old code)
            cur_a = inp["ca2"] if (who == "a" and changed and force) else inp["ca"]
            if not self._only(r["listed"][2], [cur_a, inp["cb"]]):
                return "after the third step exception_aliases lists %r although the current documents declare only a=%r b=%r" % (c10._simp(r["listed"][2]), cur_a, inp["cb"])
        if which in ("c11", "both"):
            ca, cb, ca2 = inp["ca"], inp["cb"], inp["ca2"]
            if not self._lists(r["listed"][0], ca):
                return "after generating a: its code is not in exception_aliases"
            for need in (ca, cb):
                if not self._lists(r["listed"][1], need):
                    return "after generating b: exception_aliases lists %r, client codes a=%r b=%r" % (c10._simp(r["listed"][1]), ca, cb)
            if o[2] == "ok":
                cur_a = ca2 if (who == "a" and changed and force) else ca
                for need in (cur_a, cb):
                    if not self._lists(r["listed"][2], need):
                        return "after the third step: exception_aliases lists %r, current client codes a=%r b=%r" % (c10._simp(r["listed"][2]), cur_a, cb)
        return None

    which = "both"

    def prop(self, inp, r):
        return self.verdict(inp, r, self.which) is None

    def describe_violation(self, inp, r):
        return "layout %r third step %r codes a=%r b=%r a'=%r: %s" % (LAYOUTS[self.layout], tuple(inp["third"]), inp["ca"], inp["cb"], inp["ca2"], self.verdict(inp, r, self.which))


def mk_shared(layout, which="both"):
    ob = SharedCoreHistory(layout)
    ob.which = which
    ob.name = ob.name + "/" + which
    return ob


def specs(tier, which):
    return [(MOD, "mk_shared", (layout, which)) for layout in (("sibling", "nested", "same_leaf") if tier == "quick" else ("sibling", "nested", "deep", "same_leaf"))]


def replay_ob(v):
    parts = v["obligation"].split("/")
    ob = mk_shared(parts[1], parts[2] if len(parts) > 2 else "both")
    inp = dict(v["inputs"])
    inp["third"] = tuple(inp["third"])
    return ob, inp
