"""C15 — Spec text can never alter the structure of generated code (engine E1 / symx + reference lexer lib/pylex.py).

One obligation per (text-bearing site, text length n).  The site's REAL rendering code (model visitor, endpoint visitor,
client visitor and everything below them, instrumented) runs on a spec object carrying one symbolic text of n characters
over a hostile alphabet; the rendered fragments (symbolic strings) are then lexed by the reference model of Python's
lexical rules, which forks on every character test.  P: each fragment lexes, its token skeleton equals the skeleton of
the same site rendered with a benign text of the same length, and (value sites) the string literal that carries the text
evaluates to exactly the original text.
"""
from __future__ import annotations

import itertools
import json
import os
from importlib import import_module

import pylex
from symx import explore, hook
from symx.core import SymStr, mk_sym_str, ranges_of_pts, s_and, is_sym
from symx.explore import Obligation, Raised, call_catching

hook.install()
MOD = "props.c15"

HOSTILE = "\"'\\\n\r\t #{}:aNxu0\xe9\u2028\x0c\x00\U0001f600\xb2"  # the last one: \\w accepts it, Python identifiers do not
HOSTILE_RANGES = ranges_of_pts([ord(c) for c in HOSTILE])


def _I():
    import sxi_pyopenapi_gen as P  # noqa

    return _patch(P)


def _R():
    import pyopenapi_gen as P

    return _patch(P)


_patched = set()


def _patch(P):
    """Black is outside the claim (it is AST-preserving by construction and falls back to its input on error)."""
    if P.__name__ not in _patched:
        u = import_module(P.__name__ + ".core.utils")
        u.Formatter.format = lambda self, code: code
        if P.__name__.startswith("sxi_"):
            # os.path arithmetic on a module name derived from a symbolic tag: for the file layout of this harness
            # (current file at the package root) the answer is "." + target; every path's witness is compared with the
            # real implementation's output (import lines included), so a wrong stub shows up as a harness error.
            rc = import_module(P.__name__ + ".context.render_context")
            real = rc.RenderContext.calculate_relative_path_for_internal_module

            def calc(self, target):
                if is_sym(target) and not target.is_concrete():
                    if not str(self.current_file).endswith("/pkg/client.py"):
                        raise hook.Unsupported("relative import path for a symbolic module outside the package root")
                    return "." + target
                return real(self, target)

            rc.RenderContext.calculate_relative_path_for_internal_module = calc
        _patched.add(P.__name__)
    return P


def marker(n):
    return ("Qz" * n)[:n]


# ------------------------------------------------------------------ sites
def _ctx(P, rel):
    rc = import_module(P.__name__ + ".context.render_context")
    ctx = rc.RenderContext(core_package_name="core", package_root_for_generated_code="/tmp/x/pkg", overall_project_root="/tmp/x")
    ctx.set_current_file("/tmp/x/pkg/" + rel)
    return ctx


def _model(P, schema, extra=()):
    mv = import_module(P.__name__ + ".visit.model.model_visitor")
    schemas = hook.SDict() if P.__name__.startswith("sxi_") else {}
    schemas[schema.name] = schema
    for s in extra:
        schemas[s.name] = s
    for s in schemas.values():
        s.generation_name = s.name
        s.final_module_stem = s.name.lower()
    ctx = _ctx(P, "models/%s.py" % schema.name.lower())
    code = mv.ModelVisitor(schemas=schemas).visit(schema, ctx)
    return [ctx.render_imports() + "\n\n" + code]


def S(P, **k):
    return P.IRSchema(**k)


def m_class_desc(P, t):
    return _model(P, S(P, name="Holder", type="object", description=t, properties={"v": S(P, type="string")}, required=["v"]))


def m_field_desc_required(P, t):
    return _model(P, S(P, name="Holder", type="object", properties={"v": S(P, type="string", description=t)}, required=["v"]))


def m_field_desc_optional(P, t):
    return _model(P, S(P, name="Holder", type="object", properties={"v": S(P, type="integer", description=t)}, required=[]))


def m_property_name(P, t):
    props = hook.SDict() if is_sym(t) else {}
    props[t] = S(P, type="string")
    return _model(P, S(P, name="Holder", type="object", properties=props, required=[]))


def m_string_default(P, t):
    return _model(P, S(P, name="Holder", type="object", properties={"v": S(P, type="string", default=t)}, required=[]))


def m_numeric_string_default(P, t):
    # an integer property whose default is written as a string in the document
    return _model(P, S(P, name="Holder", type="object", properties={"v": S(P, type="integer", default=t)}, required=[]))


def m_enum_default(P, t):
    prio = S(P, name="Prio", type="string", enum=["low", t], default=t)
    holder = S(P, name="Holder", type="object", properties={"p": prio}, required=[])
    return _model(P, holder, extra=[prio])


def m_enum_value(P, t):
    return _model(P, S(P, name="Color", type="string", enum=["red", t]))


def m_enum_desc(P, t):
    return _model(P, S(P, name="Color", type="string", enum=["red"], description=t))


def m_alias_desc(P, t):
    return _model(P, S(P, name="Ids", type="array", items=S(P, type="string"), description=t))


def _union(P, disc):
    cat = S(P, name="Cat", type="object", properties={"kind": S(P, type="string")}, required=["kind"])
    dog = S(P, name="Dog", type="object", properties={"kind": S(P, type="string")}, required=["kind"])
    pet = S(P, name="Pet", one_of=[cat, dog], discriminator=disc, description="A pet")
    return _model(P, pet, extra=[cat, dog])


def m_discriminator_property(P, t):
    return _union(P, P.IRDiscriminator(property_name=t, mapping={"cat": "#/components/schemas/Cat", "dog": "#/components/schemas/Dog"}))


def m_discriminator_value(P, t):
    mp = hook.SDict() if is_sym(t) else {}
    mp["cat"] = "#/components/schemas/Cat"
    mp[t] = "#/components/schemas/Dog"
    if len(mp) != 2:
        return None
    return _union(P, P.IRDiscriminator(property_name="kind", mapping=mp))


def m_wrapper_desc(P, t):
    return _model(P, S(P, name="Bag", type="object", additional_properties=True, description=t))


def m_typed_wrapper_desc(P, t):
    return _model(P, S(P, name="Bag", type="object", additional_properties=S(P, type="integer"), description=t))


def m_array_wrapper_desc(P, t):
    return _model(P, S(P, name="Rows", type="array", description=t,
                       items=S(P, type="object", properties={"a": S(P, type="string")})))


def _endpoint(P, op, mock=True):
    ev = import_module(P.__name__ + ".visit.endpoint.endpoint_visitor")
    schemas = hook.SDict() if P.__name__.startswith("sxi_") else {}
    tag = op.tags[0] if op.tags else "default"
    ctx = _ctx(P, "endpoints/things.py")
    v = ev.EndpointVisitor(schemas)
    code = v.visit(op, ctx)
    cls = v.emit_endpoint_client_class(tag, [code], ctx, operations=[op])
    out = [ctx.render_imports() + "\n\n" + cls]
    if mock:
        ctx2 = _ctx(P, "mocks/endpoints/mock_things.py")
        out.append(v.generate_endpoint_mock_class(tag, [op], ctx2))
    return out


def _op(P, summary="Get a thing", description="Longer text.", params=None, body=None, responses=None, tags=("things",), opid="get_thing"):
    if params is None:
        params = [P.IRParameter(name="id", param_in="path", required=True, schema=S(P, type="string"), description="The id")]
    if responses is None:
        responses = [P.IRResponse(status_code="200", description="OK", content={"application/json": S(P, type="string")}),
                     P.IRResponse(status_code="404", description="Not found", content={})]
    return P.IROperation(operation_id=opid, method=P.HTTPMethod.POST if body else P.HTTPMethod.GET, path="/things/{id}",
                         summary=summary, description=description, parameters=params, request_body=body, responses=responses,
                         tags=list(tags))


def e_summary(P, t):
    return _endpoint(P, _op(P, summary=t))


def e_description(P, t):
    return _endpoint(P, _op(P, description=t))


def e_param_desc(P, t):
    return _endpoint(P, _op(P, params=[P.IRParameter(name="id", param_in="path", required=True, schema=S(P, type="string"), description=t)]))


def _qp(P, name, where, required):
    return [P.IRParameter(name="id", param_in="path", required=True, schema=S(P, type="string"), description="The id"),
            P.IRParameter(name=name, param_in=where, required=required, schema=S(P, type="string"), description="filter")]


def e_query_name_optional(P, t):
    return _endpoint(P, _op(P, params=_qp(P, t, "query", False)))


def e_query_name_required(P, t):
    return _endpoint(P, _op(P, params=_qp(P, t, "query", True)))


def e_header_name_optional(P, t):
    return _endpoint(P, _op(P, params=_qp(P, t, "header", False)))


def e_header_name_required(P, t):
    return _endpoint(P, _op(P, params=_qp(P, t, "header", True)))


def e_response_desc(P, t):
    return _endpoint(P, _op(P, responses=[P.IRResponse(status_code="200", description=t, content={"application/json": S(P, type="string")})]))


def e_error_desc(P, t):
    return _endpoint(P, _op(P, responses=[P.IRResponse(status_code="200", description="OK", content={"application/json": S(P, type="string")}),
                                          P.IRResponse(status_code="404", description=t, content={})]))


def e_body_desc(P, t):
    body = P.IRRequestBody(required=True, content={"application/json": S(P, type="string")}, description=t)
    return _endpoint(P, _op(P, body=body))


def e_tag(P, t):
    return _endpoint(P, _op(P, tags=(t,)))


def e_request_media_type(P, t):
    content = hook.SDict() if is_sym(t) else {}
    content["application/json"] = S(P, type="string")
    content[t] = S(P, type="string")
    if len(content) != 2:
        return None
    body = P.IRRequestBody(required=True, content=content, description="payload")
    return _endpoint(P, _op(P, body=body))


def e_response_media_type(P, t):
    content = hook.SDict() if is_sym(t) else {}
    content[t] = S(P, type="integer")
    content["application/json"] = S(P, type="string")
    if len(content) != 2:
        return None
    return _endpoint(P, _op(P, responses=[P.IRResponse(status_code="200", description="OK", content=content)]))


def _client(P, spec):
    cv = import_module(P.__name__ + ".visit.client_visitor")
    ctx = _ctx(P, "client.py")
    code = cv.ClientVisitor().visit(spec, ctx)
    return [ctx.render_imports() + "\n\n" + code]


def _spec(P, title="Shop", version="1.0", description="An API", tags=("things",)):
    op = _op(P, tags=tags)
    return P.IRSpec(title=title, version=version, description=description, schemas={}, operations=[op], servers=[])


def c_title(P, t):
    return _client(P, _spec(P, title=t))


def c_version(P, t):
    return _client(P, _spec(P, version=t))


def c_description(P, t):
    return _client(P, _spec(P, description=t))


def c_tag(P, t):
    return _client(P, _spec(P, tags=(t,)))


B = "pyopenapi_gen."
_MODEL_FUNCS = [B + "visit.model.model_visitor:ModelVisitor.visit_IRSchema", B + "core.writers.documentation_writer:DocumentationWriter.render_docstring",
                B + "core.writers.line_writer:LineWriter.append_wrapped", B + "core.writers.code_writer:CodeWriter.write_line"]
_EP_FUNCS = [B + "visit.endpoint.endpoint_visitor:EndpointVisitor.emit_endpoint_client_class", B + "visit.endpoint.endpoint_visitor:EndpointVisitor.generate_endpoint_mock_class",
             B + "visit.endpoint.generators.endpoint_method_generator:EndpointMethodGenerator.generate",
             B + "visit.endpoint.generators.docstring_generator:EndpointDocstringGenerator.generate_docstring",
             B + "visit.endpoint.generators.mock_generator:MockGenerator._transform_to_mock",
             B + "core.writers.documentation_writer:DocumentationWriter.render_docstring"]
# name -> (kernel, value site?, min length, functions)
SITES = {
    "model.class_description": (m_class_desc, False, 0, _MODEL_FUNCS + [B + "core.writers.python_construct_renderer:PythonConstructRenderer.render_dataclass"]),
    "model.field_description_required": (m_field_desc_required, False, 0, _MODEL_FUNCS + [B + "core.writers.python_construct_renderer:PythonConstructRenderer.render_dataclass"]),
    "model.field_description_optional": (m_field_desc_optional, False, 0, _MODEL_FUNCS + [B + "core.writers.python_construct_renderer:PythonConstructRenderer.render_dataclass"]),
    "model.property_name": (m_property_name, True, 1, _MODEL_FUNCS + [B + "visit.model.dataclass_generator:DataclassGenerator.generate", B + "core.writers.python_construct_renderer:PythonConstructRenderer.render_dataclass"]),
    "model.string_default": (m_string_default, True, 1, _MODEL_FUNCS + [B + "visit.model.dataclass_generator:DataclassGenerator._get_field_default"]),
    "model.integer_property_string_default": (m_numeric_string_default, False, 1, _MODEL_FUNCS + [B + "visit.model.dataclass_generator:DataclassGenerator._get_field_default"]),
    "model.enum_default": (m_enum_default, True, 1, _MODEL_FUNCS + [B + "visit.model.dataclass_generator:DataclassGenerator._get_field_default"]),
    "model.enum_value": (m_enum_value, True, 1, _MODEL_FUNCS + [B + "visit.model.enum_generator:EnumGenerator.generate", B + "core.writers.python_construct_renderer:PythonConstructRenderer.render_enum"]),
    "model.enum_description": (m_enum_desc, False, 0, _MODEL_FUNCS + [B + "core.writers.python_construct_renderer:PythonConstructRenderer.render_enum"]),
    "model.alias_description": (m_alias_desc, False, 0, _MODEL_FUNCS + [B + "core.writers.python_construct_renderer:PythonConstructRenderer.render_alias"]),
    "model.discriminator_property": (m_discriminator_property, True, 1, _MODEL_FUNCS + [B + "core.writers.python_construct_renderer:PythonConstructRenderer.render_alias"]),
    "model.discriminator_value": (m_discriminator_value, True, 1, _MODEL_FUNCS + [B + "core.writers.python_construct_renderer:PythonConstructRenderer.render_alias"]),
    "model.json_wrapper_description": (m_wrapper_desc, False, 0, _MODEL_FUNCS + [B + "visit.model.dataclass_generator:DataclassGenerator._generate_untyped_wrapper_class"]),
    "model.typed_wrapper_description": (m_typed_wrapper_desc, False, 0, _MODEL_FUNCS + [B + "visit.model.dataclass_generator:DataclassGenerator._generate_typed_wrapper_class"]),
    "model.array_wrapper_description": (m_array_wrapper_desc, False, 0, _MODEL_FUNCS + [B + "visit.model.dataclass_generator:DataclassGenerator.generate"]),
    "endpoint.summary": (e_summary, False, 0, _EP_FUNCS),
    "endpoint.description": (e_description, False, 0, _EP_FUNCS),
    "endpoint.parameter_description": (e_param_desc, False, 0, _EP_FUNCS),
    "endpoint.query_name_optional": (e_query_name_optional, True, 1, _EP_FUNCS + [B + "visit.endpoint.generators.url_args_generator:EndpointUrlArgsGenerator._write_query_params"]),
    "endpoint.query_name_required": (e_query_name_required, True, 1, _EP_FUNCS + [B + "visit.endpoint.generators.url_args_generator:EndpointUrlArgsGenerator._write_query_params"]),
    "endpoint.header_name_optional": (e_header_name_optional, True, 1, _EP_FUNCS + [B + "visit.endpoint.generators.url_args_generator:EndpointUrlArgsGenerator._write_header_params"]),
    "endpoint.header_name_required": (e_header_name_required, True, 1, _EP_FUNCS + [B + "visit.endpoint.generators.url_args_generator:EndpointUrlArgsGenerator._write_header_params"]),
    "endpoint.response_description": (e_response_desc, False, 0, _EP_FUNCS),
    "endpoint.error_description": (e_error_desc, False, 0, _EP_FUNCS),
    "endpoint.body_description": (e_body_desc, False, 0, _EP_FUNCS),
    "endpoint.tag": (e_tag, False, 1, _EP_FUNCS),
    "endpoint.request_media_type": (e_request_media_type, False, 1, _EP_FUNCS + [B + "visit.endpoint.generators.endpoint_method_generator:EndpointMethodGenerator._generate_implementation_method",
                                                                                 B + "visit.endpoint.generators.overload_generator:OverloadMethodGenerator.generate_overload_signatures"]),
    "endpoint.response_media_type": (e_response_media_type, False, 1, _EP_FUNCS + [B + "visit.endpoint.generators.response_handler_generator:EndpointResponseHandlerGenerator._write_content_type_conditional_handling"]),
    "client.title": (c_title, False, 0, [B + "visit.client_visitor:ClientVisitor.visit"]),
    "client.version": (c_version, False, 0, [B + "visit.client_visitor:ClientVisitor.visit"]),
    "client.description": (c_description, False, 0, [B + "visit.client_visitor:ClientVisitor.visit"]),
    "client.tag": (c_tag, False, 1, [B + "visit.client_visitor:ClientVisitor.visit"]),
}


# ------------------------------------------------------------------ oracle glue
class Benign:
    """Skeleton of the site rendered by the real code with the benign marker text of length n."""

    _cache = {}

    @classmethod
    def get(cls, site, n):
        key = (site, n)
        if key not in cls._cache:
            kernel, value_site = SITES[site][0], SITES[site][1]
            m = marker(n)
            frags = kernel(_R(), m)
            recs = []
            for f in frags:
                L = pylex.lex_text(f)
                if not L.ok:
                    raise RuntimeError("benign rendering of %s does not lex: %s" % (site, L.err))
                pos = []
                if value_site:
                    pos = [k for k, (_, _, v) in enumerate(L.strings) if v is not None and "".join(map(chr, v)) == m]
                    # (a value site must show the marker in at least one fragment; checked by the caller)
                recs.append((L.skeleton, pos, pylex.cpython_view(f)))
            if value_site and not any(r[1] for r in recs):
                # the site writes the text as something other than a string literal (i.e. as code): every input violates
                recs = "text is not rendered as a string literal at this site (benign text %r appears as code)" % m
            cls._cache[key] = recs
        return cls._cache[key]


def _lit(skeleton):
    """string and number literals are one token class: a numeric default may be written as a number (CPython's AST has
    one Constant node for both); what matters is that spec text stays a literal"""
    return [("LIT",) if t[0] in ("STR", "NUM") else t for t in skeleton]


def judge(site, n, text, frags):
    """-> (holds, reason).  `text`/`frags` concrete (str) or symbolic (SymStr); forks through the lexer when symbolic."""
    if isinstance(frags, Raised) or frags is None:
        return False, "rendering raised/declined: %r" % (frags,)
    ben = Benign.get(site, n)
    if isinstance(ben, str):
        return False, ben
    if len(frags) != len(ben):
        return False, "fragment count differs"
    conj = []
    for f, (skel, pos, _) in zip(frags, ben):
        L = pylex.lex_text(f)
        if not L.ok:
            return False, "does not lex: %s" % L.err
        if _lit(L.skeleton) != _lit(skel):
            return False, "token skeleton differs from the benign rendering (%d vs %d tokens)" % (len(L.skeleton), len(skel))
        for k in pos:
            v = L.strings[k][2]
            if v is None or len(v) != len(text):
                return False, "literal carrying the text has a different length/value"
            if isinstance(text, str):
                if "".join(map(chr, v)) != text:
                    return False, "literal carrying the text evaluates to %r" % ("".join(map(chr, v)),)
            else:
                conj.append(SymStr(v) == text)
    if conj:
        return s_and(*conj), "literal carrying the text does not evaluate to the text"
    return True, ""


def cpython_judge(site, n, text, frags):
    """The same verdict computed by CPython itself (ast.parse, AST shape, evaluated constants): validation oracle."""
    ben = Benign.get(site, n)
    if isinstance(ben, str) or len(frags) != len(ben):
        return False
    m = marker(n)
    for f, (_, pos, (bok, bshape, bconsts)) in zip(frags, ben):
        ok, shape, consts = pylex.cpython_view(f)
        if not ok or shape != bshape:
            return False
        if pos:
            if len(consts) != len(bconsts):
                return False
            for a, b in zip(consts, bconsts):
                if b == m and a != text:
                    return False
    return True


class TextSite(Obligation):
    alphabet = HOSTILE_RANGES
    timeout_ms = 30000

    def __init__(self, site, n, alpha=None):
        self.site, self.n = site, n
        self.kernel, self.value_site, _, self.functions = SITES[site]
        self.alpha_text = alpha or HOSTILE
        self.alpha_ranges = ranges_of_pts([ord(c) for c in self.alpha_text])
        self.name = "text/%s/len=%d%s" % (site, n, "" if alpha is None else "/quotes")
        self.bounds = {"site": site, "text_length": n, "alphabet": self.alpha_text, "value_site": self.value_site}

    def make_inputs(self, e):
        return {"text": mk_sym_str(self.n, "t", self.alpha_ranges)}

    def run_sym(self, inp):
        return call_catching(self.kernel, _I(), inp["text"])

    def run_real(self, inp):
        return call_catching(self.kernel, _R(), inp["text"])

    def normalise(self, res):
        if isinstance(res, list):
            return [r.simp() if is_sym(r) else r for r in res]
        return res

    def prop(self, inp, r):
        if r is None:
            return True  # the site declined the input (text equals a fixed sibling key): not a case of this site
        return judge(self.site, self.n, inp["text"], r)[0]

    def known(self, inp, r):
        return None

    def describe_violation(self, inp, r):
        ok, why = judge(self.site, self.n, inp["text"], r)
        return "site %s with text %r: %s" % (self.site, inp["text"], why)


QUOTES = "\"\\a'"


def mk(site, n, alpha=None):
    return TextSite(site, n, alpha)


# ------------------------------------------------------------------ lexer validation against CPython
def validate_lexer(site, maxlen):
    """All texts up to maxlen over the hostile alphabet, rendered by the real code at this site: the reference lexer's
    verdict must equal CPython's.  Returns (cases, disagreements)."""
    kernel, value_site, minlen, _ = SITES[site]
    R = _R()
    cases, bad = 0, []
    for n in range(minlen, maxlen + 1):
        for tup in itertools.product(HOSTILE, repeat=n):
            t = "".join(tup)
            frags = call_catching(kernel, R, t)
            if frags is None:
                continue
            cases += 1
            if isinstance(frags, Raised):
                continue
            mine = bool(judge(site, n, t, frags)[0])
            theirs = cpython_judge(site, n, t, frags)
            if mine != theirs and len(bad) < 5:
                bad.append("site %s text %r: reference lexer says %s, CPython says %s" % (site, t, mine, theirs))
    return cases, bad


def _validate_job(args):
    return (args[0],) + validate_lexer(*args)


# ------------------------------------------------------------------ numeric defaults that have no literal (YAML: .inf, -.inf, .nan)
FLOAT_DEFAULTS = [1.5, -0.0, 1e300, float("inf"), float("-inf"), float("nan")]


def k_float_default(P, idx):
    return _model(P, S(P, name="Holder", type="object", properties={"v": S(P, type="number", default=FLOAT_DEFAULTS[idx])}, required=[]))


class FloatDefault(Obligation):
    """A number default is rendered as an expression that evaluates to that number (str(float('inf')) is a bare name)."""

    functions = ["pyopenapi_gen.visit.model.dataclass_generator:DataclassGenerator._get_field_default"]

    def __init__(self):
        self.name = "float_default"
        self.bounds = {"default": [repr(x) for x in FLOAT_DEFAULTS]}

    def make_inputs(self, e):
        return {"idx": e.choose(len(FLOAT_DEFAULTS), "idx")}

    def run_sym(self, inp):
        return call_catching(k_float_default, _I(), inp["idx"])

    def run_real(self, inp):
        return call_catching(k_float_default, _R(), inp["idx"])

    def normalise(self, r):
        return [str(x.simp() if is_sym(x) else x) for x in r] if isinstance(r, list) else r

    def verdict(self, inp, r):
        import math
        import re

        if isinstance(r, Raised):
            return True, ""
        text = str(r[0].simp() if is_sym(r[0]) else r[0])
        m = re.search(r"^\s+v: [^=\n]*= (.*?)\s*(#.*)?$", text, re.M)
        if not m:
            return False, "no field `v` with a default in %r" % text[-300:]
        try:
            got = eval(m.group(1), {"__builtins__": {}, "float": float})  # the field's default expression as the module evaluates it
        except Exception as ex:  # noqa: BLE001 - the generated expression is the subject
            return False, "default expression %r does not evaluate: %r" % (m.group(1), ex)
        want = FLOAT_DEFAULTS[inp["idx"]]
        ok = (math.isnan(got) and math.isnan(want)) if isinstance(got, float) and math.isnan(want) else got == want
        return ok, "default %r rendered as %r" % (want, m.group(1))

    def prop(self, inp, r):
        return self.verdict(inp, r)[0]

    def describe_violation(self, inp, r):
        return "number property with default %r: %s" % (FLOAT_DEFAULTS[inp["idx"]], self.verdict(inp, r)[1])


def mk_float_default():
    return FloatDefault()


def specs(tier):
    nmax = 2 if tier == "quick" else 3
    deep = {"model.enum_value", "model.property_name", "endpoint.summary", "model.field_description_required", "client.description"}
    out = []
    for site, (_, _, minlen, _) in SITES.items():
        top = nmax + (1 if (tier == "thorough" and site in deep) else 0)
        for n in range(minlen, top + 1):
            out.append((MOD, "mk", (site, n)))
        # runs of quotes / backslashes longer than the general bound (triple quotes, escaped quotes), small alphabet
        for n in ([3] if tier == "quick" else [4, 5, 6]):
            if n > top:
                out.append((MOD, "mk", (site, n, QUOTES)))
    out.append((MOD, "mk_float_default", ()))
    return out


def run(tier, rep, only=None):
    sp = specs(tier)
    if only:
        sp = [s for s in sp if only in explore.build(s).name]
    rep.bounds = {"text_length": "<=2 quick / <=3 thorough (4 on enum value, wire key, endpoint summary, field comment)",
                  "alphabet": HOSTILE, "sites": sorted(SITES)}
    rep.stubs = ["Formatter.format (Black) -> identity", "textwrap.wrap/TextWrapper.wrap -> one-line model (text shorter than the wrap width)", "logging -> no-op"]
    rep.assumptions = ["every other text of the spec object is benign", "Black preserves the AST or returns its input",
                       "reference lexer lib/pylex.py == CPython on the validation corpus (checked this run)"]
    # 1. validate the reference lexer against CPython on concrete renderings of every site
    import multiprocessing as mp

    sites = sorted({s[2][0] for s in sp if s[1] == "mk"})
    vlen = 2 if tier == "quick" else 3
    with mp.get_context("fork").Pool(min(16, len(sites) or 1)) as pool:
        for site, cases, bad in pool.imap_unordered(_validate_job, [(s, vlen) for s in sites]):
            rep.validated += cases
            for b in bad:
                rep.harness_errors.append("lexer validation: " + b)
    rep.engine_notes.append("reference lexer validated against CPython (ast.parse, AST shape, literal values) on every text of length <= %d at every site" % vlen)
    # 2. the symbolic obligations
    res = explore.run_all(sp, log=lambda m: print("[c15]", m, flush=True))
    for spec in sp:
        ob = explore.build(spec)
        rep.add_symx(res[ob.name], functions=ob.functions, bounds=ob.bounds)


def replay(path):
    v = json.load(open(path))["violation"]
    if v["obligation"] == "float_default":
        ob = FloatDefault()
        ok, why = ob.verdict(v["inputs"], ob.run_real(v["inputs"]))
        print("replay float_default inputs=%r -> holds=%s %s" % (v["inputs"], ok, why))
        return 0 if ok else 1
    _, site, ln = v["obligation"].split("/")[:3]
    n = int(ln.split("=")[1])
    t = v["inputs"]["text"]
    frags = call_catching(SITES[site][0], _R(), t)
    ok = bool(judge(site, n, t, frags)[0]) if frags is not None else True
    cp = cpython_judge(site, n, t, frags) if isinstance(frags, list) else False
    print("replay %s text=%r -> holds=%s (CPython: %s)" % (site, t, ok, cp))
    return 0 if ok else 1
