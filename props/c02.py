"""C02 — Schema-to-model structure fidelity (no silently lost fields)  (engine E1 / symx on the real parser).

The REAL build_schemas -> _parse_schema / _parse_properties / _resolve_ref / unified cycle detection / allOf merge run
instrumented on a `components.schemas` object drawn from a family G of graph templates whose SCHEMA NAMES are symbolic
strings and whose DECLARATION ORDER is a solver-decided choice.  Names are symbolic because the cycle-placeholder
storage policy is decided by substring / prefix tests on them; order is symbolic because it decides which schema is in
progress when a cycle closes.  Oracle: an independent description of every template (property keys, required set,
structural kind per property).  P: every declared schema is registered exactly once and its property key set, required
set and per-property kind equal the oracle's.

props/c08.py re-uses the same runs with the tracker's rest state as the assertion.
"""
from __future__ import annotations

import itertools
import json
from importlib import import_module

from symx import explore, hook
from symx.core import Engine, SymStr, is_sym, mk_sym_str, ranges_of_pts, s_not
from symx.explore import Obligation, Raised, call_catching

hook.install()
MOD = "props.c02"
NAME_ALPHA_TXT = "ADINOSadinos1_"
NAME_ALPHA = ranges_of_pts([ord(c) for c in NAME_ALPHA_TXT])


def _harvest_tokens():
    """Name fragments the cycle-handling code itself compares schema names with: every string literal that is one
    capitalised word in the CURRENT source of the cycle detection modules (re-read on every run), so that a name-dependent
    special case shows up as a name worth trying."""
    import ast
    import os
    import re

    from common import SRC

    found = []
    for rel in ("core/parsing/unified_cycle_detection.py", "core/parsing/cycle_helpers.py"):
        try:
            tree = ast.parse(open(os.path.join(SRC, rel)).read())
        except (OSError, SyntaxError):
            continue
        for node in ast.walk(tree):
            if isinstance(node, ast.Constant) and isinstance(node.value, str) and re.fullmatch(r"[A-Z][a-zA-Z]{2,11}", node.value) and node.value not in found:
                found.append(node.value)
    return sorted(found)


TOKENS = [""]
for _t in ["Item", "Property", "Children"] + _harvest_tokens():
    if _t not in TOKENS:
        TOKENS.append(_t)


def _I():
    import sxi_pyopenapi_gen as P  # noqa

    return P


def _R():
    import pyopenapi_gen as P

    return P


def _inst(P):
    return P.__name__.startswith("sxi_")


def REF(n):
    return {"$ref": "#/components/schemas/" + n}


STR, INT = {"type": "string"}, {"type": "integer"}


def obj(props, required=()):
    d = {"type": "object", "properties": props}
    if required:
        d["required"] = list(required)
    return d


# Each template: (number of schemas, builder(names) -> {name: raw schema}, oracle(idx) -> {prop: kind}, required(idx) -> set)
# kinds: "string" | "integer" | ("ref", i) | ("list", kind) | ("map", kind) | "object"
def _t_mutual(n):
    return {n[0]: obj({"g": REF(n[1]), "w": STR}, ["w"]), n[1]: obj({"members": {"type": "array", "items": REF(n[0])}, "m": STR})}


def _t_self_array(n):
    return {n[0]: obj({"kids": {"type": "array", "items": REF(n[0])}, "label": STR}, ["label"]), n[1]: obj({"root": REF(n[0]), "v": INT})}


def _t_self_direct(n):
    return {n[0]: obj({"next": REF(n[0]), "v": INT}), n[1]: obj({"head": REF(n[0])}, ["head"])}


def _t_allof(n):
    return {n[0]: obj({"key": INT, "k": STR}, ["key"]),
            n[1]: {"allOf": [REF(n[0]), obj({"extra": STR, "peer": REF(n[1])}, ["extra"])]}}


def _t_allof_cycle(n):
    # the parent refers back to the child: the child may be parsed while its parent is in progress
    return {n[0]: obj({"key": INT, "favourite": REF(n[1])}, ["key"]),
            n[1]: {"allOf": [REF(n[0]), obj({"extra": STR}, ["extra"])]}}


def _t_allof_required_only(n):
    # the usual idiom for making an inherited property mandatory: an allOf member that holds only `required`
    return {n[0]: obj({"key": INT, "k": STR}, ["key"]),
            n[1]: {"allOf": [REF(n[0]), {"required": ["k"]}, obj({"extra": STR, "peer": REF(n[1])})]}}


def _t_anyof_of_oneof(n):
    return {n[0]: {"anyOf": [REF(n[1]), REF(n[2])]}, n[1]: {"oneOf": [REF(n[2]), STR]}, n[2]: obj({"v": INT, "back": REF(n[0])})}


def _t_ring3(n):
    return {n[0]: obj({"b": REF(n[1]), "x": STR}), n[1]: obj({"c": REF(n[2]), "y": STR}), n[2]: obj({"h": REF(n[0]), "z": STR})}


def _t_map(n):
    return {n[0]: obj({"m": {"type": "object", "additionalProperties": REF(n[1])}, "x": STR}), n[1]: obj({"h": REF(n[0]), "y": INT})}


def _t_self_additional(n):
    # a tree whose extra keys are sub-trees: properties plus additionalProperties referring to the schema itself
    return {n[0]: dict(obj({"label": STR}, ["label"]), additionalProperties=REF(n[0])), n[1]: obj({"root": REF(n[0]), "v": INT})}


def _t_null_property(n):
    # a property left empty in YAML (`note:`) is a null node parsed under a contextual name
    return {n[0]: obj({"note": None, "x": STR}), n[1]: obj({"h": REF(n[0]), "y": INT})}


def _t_oneof(n):
    return {n[0]: {"oneOf": [REF(n[1]), REF(n[2])]}, n[1]: obj({"u": REF(n[0]), "x": STR}), n[2]: obj({"y": INT})}


def _t_wrapped_enum(n):
    # `allOf: [{$ref}]` + annotations: the OpenAPI 3.0 idiom for a nullable / described reference; here to an enum
    return {n[0]: obj({"e": {"allOf": [REF(n[1])], "nullable": True}, "d": {"allOf": [REF(n[1])], "description": "described"}, "v": STR}, ["v"]),
            n[1]: {"type": "string", "enum": ["a", "b"]}}


def _t_wrapped_alias(n):
    # ... to a primitive alias and (through it) an array alias
    return {n[0]: obj({"s": {"allOf": [REF(n[1])], "nullable": True}, "v": INT}), n[1]: {"type": "string", "format": "date-time"}}


def _t_diamond(n):
    return {n[0]: obj({"l": REF(n[1]), "r": REF(n[2])}), n[1]: obj({"b": REF(n[0]), "p": STR}), n[2]: obj({"b": REF(n[1]), "q": STR})}


TEMPLATES = {
    "mutual": (2, _t_mutual, [{"g": ("ref", 1), "w": "string"}, {"members": ("list", ("ref", 0)), "m": "string"}], [{"w"}, set()]),
    "self_array": (2, _t_self_array, [{"kids": ("list", ("ref", 0)), "label": "string"}, {"root": ("ref", 0), "v": "integer"}], [{"label"}, set()]),
    "self_direct": (2, _t_self_direct, [{"next": ("ref", 0), "v": "integer"}, {"head": ("ref", 0)}], [set(), {"head"}]),
    "allof": (2, _t_allof, [{"key": "integer", "k": "string"}, {"key": "integer", "k": "string", "extra": "string", "peer": ("ref", 1)}], [{"key"}, {"key", "extra"}]),
    "allof_cycle": (2, _t_allof_cycle, [{"key": "integer", "favourite": ("ref", 1)}, {"key": "integer", "favourite": ("ref", 1), "extra": "string"}], [{"key"}, {"key", "extra"}]),
    "allof_required_only": (2, _t_allof_required_only, [{"key": "integer", "k": "string"}, {"key": "integer", "k": "string", "extra": "string", "peer": ("ref", 1)}], [{"key"}, {"key", "k"}]),
    "anyof_of_oneof": (3, _t_anyof_of_oneof, [("union", [("ref", 1), ("ref", 2)]), ("union", [("ref", 2), "string"]), {"v": "integer", "back": ("ref", 0)}], [None, None, set()]),
    "ring3": (3, _t_ring3, [{"b": ("ref", 1), "x": "string"}, {"c": ("ref", 2), "y": "string"}, {"h": ("ref", 0), "z": "string"}], [set(), set(), set()]),
    "map": (2, _t_map, [{"m": ("map", ("ref", 1)), "x": "string"}, {"h": ("ref", 0), "y": "integer"}], [set(), set()]),
    "self_additional": (2, _t_self_additional, [{"label": "string"}, {"root": ("ref", 0), "v": "integer"}], [{"label"}, set()]),
    "null_property": (2, _t_null_property, [{"note": None, "x": "string"}, {"h": ("ref", 0), "y": "integer"}], [set(), set()]),
    "oneof": (3, _t_oneof, [None, {"u": ("ref", 0), "x": "string"}, {"y": "integer"}], [None, set(), set()]),
    "wrapped_enum": (2, _t_wrapped_enum, [{"e": ("ref", 1), "d": ("ref", 1), "v": "string"}, "value"], [{"v"}, set()]),
    "wrapped_alias": (2, _t_wrapped_alias, [{"s": ("ref", 1), "v": "integer"}, "value"], [set(), set()]),
    "diamond": (3, _t_diamond, [{"l": ("ref", 1), "r": ("ref", 2)}, {"b": ("ref", 0), "p": "string"}, {"b": ("ref", 1), "q": "string"}], [set(), set(), set()]),
}


def _eqs(a, b):
    """string equality that works for str / SymStr"""
    if a is None or b is None:
        return False
    return len(a) == len(b) and bool(a == b)


def k_parse(P, template, names, order):
    """-> (per declared schema: (entries found, {prop: kind}, sorted required, ), tracker rest state)"""
    ext = import_module(P.__name__ + ".core.loader.schemas.extractor")
    san = P.core.utils.NameSanitizer.sanitize_class_name
    n, build, _, _ = TEMPLATES[template]
    # an association list (a plain dict cannot hold symbolic keys); the same construction is used for concrete names
    pairs = _pairs(template, names)
    pairs = [pairs[i] for i in order]
    D = hook.SDict if _inst(P) else dict
    raw = D()
    for k, v in pairs:
        raw[k] = hook.to_sx(v) if _inst(P) else v
    if len(raw) != n:
        return None
    ctx = ext.build_schemas(raw, D(schemas=raw))
    sanitized = [san(x) for x in names]
    out = []
    for i, nm in enumerate(names):
        hits = [(k, v) for k, v in ctx.parsed_schemas.items() if _eqs(k, nm) or _eqs(k, sanitized[i])]
        best = None
        for k, v in hits:
            if best is None or len(v.properties or {}) > len(best.properties or {}):
                best = v
        props = {}
        req = []
        if best is not None:
            for pk, pv in (best.properties or {}).items():
                props[pk] = _kind(pv, names, sanitized)
            req = sorted(best.required or [])
        members = None
        if best is not None and (best.one_of or best.any_of):
            members = [_kind(m, names, sanitized) for m in (best.one_of or best.any_of)]
        out.append((len(hits), props, req, _shape(best), members))
    if template in NAMING_TEMPLATES:
        # the class / module names the REAL ModelsEmitter assigns to what was parsed (file writing stubbed)
        _assign_names(P, ctx.parsed_schemas)
        for i, nm in enumerate(names):
            reg = [v for k, v in ctx.parsed_schemas.items() if _eqs(k, nm) or _eqs(k, sanitized[i])]
            rivals = sum(1 for k in ctx.parsed_schemas.keys() if _eqs(san(k), sanitized[i]))
            got = (reg[0].generation_name, reg[0].final_module_stem) if len(reg) == 1 else None
            out[i] = out[i] + ((got, sanitized[i], rivals),)
    u = ctx.unified_cycle_context
    states = sorted(str(getattr(s, "value", s)) for s in u.schema_states.values())
    rest = (u.recursion_depth, len(u.schema_stack), states.count("in_progress"), states.count("not_started"))
    return (out, rest)


NAMING_TEMPLATES = ("oneof", "anyof_of_oneof", "allof")
LIGHT_TEMPLATES = ("wrapped_enum", "wrapped_alias")  # no cycle in them: one name length is enough for the quick tier


def _assign_names(P, schemas):
    import shutil
    import tempfile

    from props import c20

    me = import_module(P.__name__ + ".emitters.models_emitter")
    rc = import_module(P.__name__ + ".context.render_context")
    root = tempfile.mkdtemp(prefix="c02n_", dir=c20._workdir())
    try:
        ctx = rc.RenderContext(core_package_name="core", package_root_for_generated_code=root, overall_project_root=root)
        em = me.ModelsEmitter(ctx, schemas)
        em._generate_model_file = lambda schema_ir, models_dir: None
        em._generate_init_py_content = lambda: ""
        em.emit(P.IRSpec(title="t", version="1", schemas=schemas, operations=[], servers=[]), root)
    finally:
        shutil.rmtree(root, ignore_errors=True)


def _pairs(template, names):
    """the template's schemas as (name, raw) pairs with symbolic names substituted (REF strings become symbolic too)"""
    n, build, _, _ = TEMPLATES[template]
    ph = ["\x00N%d\x00" % i for i in range(n)]
    concrete = build(ph)

    def sub(x):
        if isinstance(x, dict):
            return {k: sub(v) for k, v in x.items()}
        if isinstance(x, list):
            return [sub(v) for v in x]
        if isinstance(x, str):
            for i, p in enumerate(ph):
                if p in x:
                    pre, post = x.split(p)
                    return pre + names[i] + post
        return x

    return [(names[i], sub(concrete[ph[i]])) for i in range(n)]


def _shape(s):
    if s is None:
        return None
    if s.one_of or s.any_of:
        return "union"
    return s.type


def _kind(s, names, sanitized, depth=0):
    if s is None:
        return None
    if depth > 3:
        return "deep"
    tgt = getattr(s, "_refers_to_schema", None)
    nm = s.name
    if nm is None and tgt is not None:
        nm = tgt.name
    if nm is not None:
        for i in range(len(names)):
            if _eqs(nm, names[i]) or _eqs(nm, sanitized[i]):
                return ("ref", i)
    if s.type == "array":
        return ("list", _kind(s.items, names, sanitized, depth + 1))
    if s.type == "object" and s.additional_properties is not None and not s.properties and not isinstance(s.additional_properties, bool):
        return ("map", _kind(s.additional_properties, names, sanitized, depth + 1))
    return s.type


def mk_names(e, template, lens, tokens):
    n = TEMPLATES[template][0]
    names = []
    for i in range(n):
        base = mk_sym_str(lens[i], "n%d" % i, NAME_ALPHA)
        tok = TOKENS[e.choose(len(TOKENS), "tok%d" % i)] if (tokens and i == 0) else ""
        names.append((base + tok) if tok else base)
    return names


def _sn(x):
    if isinstance(x, (tuple, list)):
        return tuple(_sn(v) for v in x)
    return _s(x) if x is not None and not isinstance(x, int) else x


class Fidelity(Obligation):
    functions = ["pyopenapi_gen.core.loader.schemas.extractor:build_schemas", "pyopenapi_gen.core.parsing.schema_parser:_parse_schema",
                 "pyopenapi_gen.core.parsing.schema_parser:_parse_properties", "pyopenapi_gen.core.parsing.schema_parser:_resolve_ref",
                 "pyopenapi_gen.core.parsing.unified_cycle_detection:unified_cycle_check", "pyopenapi_gen.core.parsing.unified_cycle_detection:unified_enter_schema",
                 "pyopenapi_gen.core.parsing.unified_cycle_detection:unified_exit_schema", "pyopenapi_gen.core.parsing.keywords.all_of_parser:_process_all_of",
                 "pyopenapi_gen.ir:IRSchema.__post_init__"]
    alphabet = NAME_ALPHA
    timeout_ms = 60000

    def __init__(self, template, lens, tokens=False):
        self.template, self.lens, self.tokens = template, tuple(lens), tokens
        self.name = "%s/%s/lens=%s%s" % (self.KIND, template, "x".join(map(str, lens)), "/tokens" if tokens else "")
        self.bounds = {"template": template, "name_lengths": list(lens), "alphabet": NAME_ALPHA_TXT,
                       "name_suffix_tokens": TOKENS if tokens else [""], "declaration_orders": "all"}

    KIND = "fidelity"

    def make_inputs(self, e):
        names = mk_names(e, self.template, self.lens, self.tokens)
        n = len(names)
        # valid component names, pairwise distinct - also after class-name sanitisation (name collisions are C20's subject)
        san = _I().core.utils.NameSanitizer.sanitize_class_name
        for i in range(n):
            if len(names[i]) == 0:
                e.assume(False)
        sn = [san(x) for x in names]
        for i in range(n):
            for j in range(i + 1, n):
                if len(names[i]) == len(names[j]):
                    e.assume(s_not(names[i] == names[j]))
                if len(sn[i]) == len(sn[j]):
                    e.assume(s_not(sn[i] == sn[j]))
        perms = list(itertools.permutations(range(n)))
        order = perms[e.choose(len(perms), "order")]
        inp = {"order": list(order)}
        for i, x in enumerate(names):
            inp["name%d" % i] = x
        return inp

    def _names(self, inp):
        return [inp["name%d" % i] for i in range(TEMPLATES[self.template][0])]

    def run_sym(self, inp):
        return call_catching(k_parse, _I(), self.template, self._names(inp), inp["order"])

    def run_real(self, inp):
        return call_catching(k_parse, _R(), self.template, self._names(inp), inp["order"])

    def normalise(self, r):
        if isinstance(r, tuple):
            out, rest = r
            return ([(c, {(_s(k)): v for k, v in p.items()}, [_s(x) for x in q], sh, mem) + tuple(_sn(x) for x in more) for c, p, q, sh, mem, *more in out], rest)
        return r

    def verdict(self, inp, r):
        if r is None:
            return True, ""
        if isinstance(r, Raised):
            return False, "loading raised %r" % (r,)
        out, rest = r
        _, _, want_props, want_req = TEMPLATES[self.template]
        for i, (count, props, req, shape, members, *more) in enumerate(out):
            if count != 1:
                return False, "schema #%d is registered %d times" % (i, count)
            if more:
                got, want, rivals = more[0]
                if got is None or got[0] is None or got[1] is None or (rivals == 1 and not _eqs(got[0], want)):
                    return False, "schema #%d is emitted as class/module %r although nothing else in the document is named like it (expected class %r)" % (i, _sn(got), _sn(want))
            if want_props[i] == "value":
                continue  # an enum / primitive alias: registered once, nothing to say about properties
            if want_props[i] is None or isinstance(want_props[i], tuple):
                if shape != "union":
                    return False, "schema #%d (a oneOf/anyOf union) came out as %r" % (i, shape)
                if isinstance(want_props[i], tuple) and members != want_props[i][1]:
                    return False, "union #%d has members %r, the document declares %r" % (i, members, want_props[i][1])
                continue
            got = {_s(k): v for k, v in props.items()}
            if got != want_props[i]:
                return False, "schema #%d has properties %r, the document declares %r" % (i, got, want_props[i])
            if set(_s(x) for x in req) != want_req[i]:
                return False, "schema #%d has required %r, the document declares %r" % (i, req, sorted(want_req[i]))
        return True, ""

    def prop(self, inp, r):
        return self.verdict(inp, r)[0]

    def known(self, inp, r):
        """Listed findings, each a predicate over the harness inputs (template and names); a violation outside them is new."""
        if self.verdict(inp, r)[0]:
            return None
        if self.template in ("map", "diamond_inline"):
            return "cycle-through-inline-object-property"
        if self.template == "allof_cycle":
            return "allof-parent-refers-to-child"
        names = self._names(inp)
        for i, a in enumerate(names):
            for j, b in enumerate(names):
                if i != j and len(a) < len(b) and bool(b.startswith(a)):
                    return "name-prefix-or-token-on-cycle"
            for tok in ("Item", "Property"):
                if len(a) >= len(tok) and bool(SymStr.lift(a).contains_expr(tok)):
                    return "name-prefix-or-token-on-cycle"
        return None

    def describe_violation(self, inp, r):
        return "template %s, names %r, declaration order %r: %s" % (self.template, self._names(inp), inp["order"], self.verdict(inp, r)[1])


def _s(x):
    return x.simp() if is_sym(x) else x


def mk(template, lens, tokens=False):
    return Fidelity(template, lens, tokens)


def specs(tier, factory="mk"):
    out = []
    q = tier == "quick"
    for t, (n, _, _, _) in TEMPLATES.items():
        out.append((MOD, factory, (t, (1,) * n)))
        if t in LIGHT_TEMPLATES:
            if not q:
                out.append((MOD, factory, (t, (2, 1))))
            continue
        if n == 2:
            out.append((MOD, factory, (t, (2, 1))))
            out.append((MOD, factory, (t, (1, 2))))
            if not q:
                out.append((MOD, factory, (t, (1, 1), True)))
                if t in ("mutual", "self_array", "allof", "allof_cycle", "map"):
                    out.append((MOD, factory, (t, (2, 2))))
                if t == "mutual":
                    out.append((MOD, factory, (t, (3, 2))))  # (three-character names on every template cost hours)
        elif not q and t in ("ring3", "oneof"):
            out.append((MOD, factory, (t, (2, 1, 1))))
            out.append((MOD, factory, (t, (1, 1, 1), True)))
    if q:
        out.append((MOD, factory, ("mutual", (1, 1), True)))
        out.append((MOD, factory, ("self_array", (1, 1), True)))
    return out


def run(tier, rep, only=None):
    sp = specs(tier)
    if rep.prop == "C02":
        from props import c02r

        sp = sp + c02r.specs(tier)  # the rendering half: one dataclass field per property, key maps, required-ness, kinds
    if only:
        sp = [s for s in sp if only in explore.build(s).name]
    rep.bounds = {"templates": sorted(TEMPLATES), "schemas": "2-3 named schemas", "name_lengths": "<=2 quick / <=3 thorough (+ suffix tokens Item/Property/Children)",
                  "alphabet": NAME_ALPHA_TXT, "declaration_orders": "every permutation (solver-decided)"}
    rep.stubs = ["logging/warnings -> no-op"]
    rep.assumptions = ["component names are non-empty, pairwise distinct, and distinct after class-name sanitisation (collisions are C20's subject)",
                       "graphs outside the template family are outside the claim", "the oracle is the TEMPLATES table of props/c02.py"]
    res = explore.run_all(sp, log=lambda m: print("[%s]" % rep.prop.lower(), m, flush=True), slice_s=15.0)
    for s in sp:
        ob = explore.build(s)
        rep.add_symx(res[ob.name], functions=ob.functions, bounds=ob.bounds)


def replay(path):
    v = json.load(open(path))["violation"]
    parts = v["obligation"].split("/")
    if parts[0] == "render_fidelity":
        from props import c02r

        ob = c02r.replay_ob(v)
        r = ob.run_real(v["inputs"])
        why = ob.verdict(v["inputs"], r)
        print("replay %s inputs=%r -> %s" % (v["obligation"], v["inputs"], "holds" if why is None else why))
        return 0 if why is None else 1
    ob = Fidelity(parts[1], [1] * TEMPLATES[parts[1]][0])
    r = ob.run_real(v["inputs"])
    ok, why = ob.verdict(v["inputs"], r)
    print("replay %s inputs=%r -> holds=%s %s" % (v["obligation"], v["inputs"], ok, why))
    return 0 if ok else 1
