"""C11 — Clients sharing one core package keep working as more are generated (engine E1 / symx; partial).

Decided: (K1) one step of the exception registry from an ARBITRARY prior state (so histories of any length follow by
induction): real ExceptionsEmitter._update_registry + _generate_for_codes with the registry file replaced by an in-memory
stub; the prior registry (which clients exist, how many codes each has) is solver-chosen and every status code is a
symbolic integer 400..599.  P: every other client's entry is unchanged, this client's entry is its new code list, the
returned union contains every entry's codes, and an alias class is generated for every code of the union.
(K2) the gate: real ExceptionsEmitter._is_shared_core over the layouts core depth 1..4 below the project root x client
package depth; P: whenever the core directory is not inside the client's own package directory (i.e. a second client can
share it) the gate is true.  The layouts are a finite solver-decided choice; paths are real temporary directories.

Not decided: the re-import of earlier clients after each generation (filesystem + interpreter).
"""
from __future__ import annotations

import json
import os
import shutil
import tempfile
from importlib import import_module

from symx import explore, hook
from symx.core import SymInt, is_sym, mk_sym_int
from symx.explore import Obligation, Raised, call_catching

hook.install()
MOD = "props.c11"
CLIENTS = ["shop", "billing", "a.b.client"]


def _I():
    import sxi_pyopenapi_gen as P  # noqa

    return P


def _R():
    import pyopenapi_gen as P

    return P


class _File:
    def __init__(self, store, mode):
        self.store, self.mode = store, mode

    def __enter__(self):
        return self

    def __exit__(self, *a):
        return False


class _Json:
    """json.load/json.dump on the in-memory registry file (the registry object itself is the file content)"""

    def __init__(self, store):
        self.store = store

    def load(self, f):
        return self.store["content"]

    def dump(self, obj, f, **kw):
        self.store["content"] = obj
        self.store["writes"] += 1


def k_registry(P, prior, client, codes, gen_names=False):
    """prior: list of (client name, [codes]); returns (registry after, returned union, generated alias names, writes)"""
    ee = import_module(P.__name__ + ".emitters.exceptions_emitter")
    rc = import_module(P.__name__ + ".context.render_context")
    inst = P.__name__.startswith("sxi_")
    D = hook.SDict if inst else dict
    reg = D()
    for name, cs in prior:
        reg[name] = list(cs)
    store = {"content": reg, "writes": 0, "exists": bool(prior)}
    em = ee.ExceptionsEmitter(core_package_name="core", overall_project_root="/proj")
    saved = (ee.__dict__.get("open"), ee.json, ee.os)

    class _OsPath:
        @staticmethod
        def exists(p):
            return store["exists"]

        join = staticmethod(os.path.join)

    class _Os:
        path = _OsPath

    ee.__dict__["open"] = lambda path, mode="r": _File(store, mode)
    ee.json = _Json(store)
    ee.os = _Os
    try:
        union = em._update_registry("/proj/core/.exception_registry.json", client, list(codes))
        names = []
        if gen_names:
            ctx = rc.RenderContext(core_package_name="core", package_root_for_generated_code="/proj/core", overall_project_root="/proj")
            ctx.set_current_file("/proj/core/exception_aliases.py")
            code, names = em._generate_for_codes(union, ctx)
    finally:
        if saved[0] is None:
            ee.__dict__.pop("open", None)
        else:
            ee.__dict__["open"] = saved[0]
        ee.json, ee.os = saved[1], saved[2]
    after = [(k, list(v)) for k, v in store["content"].items()]
    if gen_names:
        hsc = import_module(P.__name__ + ".core.http_status_codes")
        want = [hsc.get_exception_class_name(c) for c in union]  # the name the generated endpoints import and raise
        ok = len(names) == len(want) and all(len(a) == len(b) and bool(a == b) for a, b in zip(names, want))
        return (after, list(union), len(names) if ok else -1, store["writes"])
    return (after, list(union), len(names), store["writes"])


def _has(lst, x):
    return any(bool(y == x) for y in lst)


class RegistryStep(Obligation):
    functions = ["pyopenapi_gen.emitters.exceptions_emitter:ExceptionsEmitter._update_registry",
                 "pyopenapi_gen.emitters.exceptions_emitter:ExceptionsEmitter._generate_for_codes",
                 "pyopenapi_gen.core.http_status_codes:get_exception_class_name"]

    def __init__(self, max_clients, max_codes, gen_names=False):
        self.mc, self.mk, self.gen_names = max_clients, max_codes, gen_names
        self.name = "registry_step/clients<=%d/codes<=%d%s" % (max_clients, max_codes, "/aliases" if gen_names else "")
        self.bounds = {"prior_clients": "<=%d of %r" % (max_clients, CLIENTS), "codes_per_client": "<=%d, each a symbolic int 400..599" % max_codes}

    def make_inputs(self, e):
        cnt = [0]

        def code():
            cnt[0] += 1
            return mk_sym_int("c%d" % cnt[0], 400, 599)

        nprior = e.choose(self.mc + 1, "nprior")
        prior = []
        for i in range(nprior):
            cs = [code() for _ in range(e.choose(self.mk + 1, "k%d" % i))]
            # a stored entry is sorted (that is how every earlier step wrote it)
            for a, b in zip(cs, cs[1:]):
                e.assume(a <= b)
            prior.append((CLIENTS[i], cs))
        client = CLIENTS[e.choose(len(CLIENTS), "client")]
        codes = [code() for _ in range(e.choose(self.mk + 1, "knew"))]
        return {"prior": prior, "client": client, "codes": codes}

    def run_sym(self, inp):
        return call_catching(k_registry, _I(), inp["prior"], inp["client"], inp["codes"], self.gen_names)

    def run_real(self, inp):
        return call_catching(k_registry, _R(), inp["prior"], inp["client"], inp["codes"], self.gen_names)

    def verdict(self, inp, r):
        if isinstance(r, Raised):
            return False, "the step raised %r" % (r,)
        after, union, n_names, writes = r
        prior, client, codes = inp["prior"], inp["client"], inp["codes"]
        entries = dict((k, v) for k, v in after)
        for name, cs in prior:
            if name == client:
                continue
            got = entries.get(name)
            if got is None or len(got) != len(cs) or not all(bool(a == b) for a, b in zip(got, cs)):
                return False, "entry of client %r changed from %r to %r" % (name, cs, got)
        mine = entries.get(client)
        if mine is None or len(mine) != len(codes) or not all(_has(mine, c) for c in codes):
            return False, "entry of the regenerated client %r is %r, its codes are %r" % (client, mine, codes)
        for name, cs in after:
            for c in cs:
                if not _has(union, c):
                    return False, "code %r of client %r is missing from the union %r" % (c, name, union)
        # one alias class per distinct 4xx/5xx code of the union (the union is a sorted list of distinct codes)
        for a, b in zip(union, union[1:]):
            if not bool(a < b):
                return False, "returned union %r is not strictly increasing" % (union,)
        if self.gen_names and n_names != len(union):
            return False, "alias classes generated for the union %r do not match the class names the endpoints raise (count %d)" % (union, n_names)
        if writes != 1:
            return False, "registry written %d times" % writes
        return True, ""

    def prop(self, inp, r):
        return self.verdict(inp, r)[0]

    def describe_violation(self, inp, r):
        return "prior %r, regenerate %r with %r: %s" % (inp["prior"], inp["client"], inp["codes"], self.verdict(inp, r)[1])


def mk_step(mc, mk, gen_names=False):
    return RegistryStep(mc, mk, gen_names)


# ------------------------------------------------------------------ K2
def k_gate(P, core_depth, client_depth, core_inside_client, prefix_sibling=False, no_codes=False):
    """Drives the real ExceptionsEmitter.emit (visitor and registry steps stubbed) and reports whether the registry was consulted."""
    ee = import_module(P.__name__ + ".emitters.exceptions_emitter")
    root = tempfile.mkdtemp(prefix="c11_")
    try:
        pkg = ["pkg%d" % i for i in range(client_depth)]
        client_dir = os.path.join(root, *pkg)
        if core_inside_client:
            core_dir = os.path.join(client_dir, "core")
        elif prefix_sibling:
            core_dir = client_dir + "_core"  # a sibling whose path has the client's path as a textual prefix
        else:
            core_dir = os.path.join(root, *(["shared%d" % i for i in range(core_depth - 1)] + ["core"]))
        os.makedirs(client_dir, exist_ok=True)
        os.makedirs(core_dir, exist_ok=True)
        em = ee.ExceptionsEmitter(core_package_name="core", overall_project_root=root)
        used = []

        class V:
            def visit(self, spec, ctx):
                return ("", [], [] if no_codes else [404])

        em.visitor = V()
        em._update_registry = lambda path, client, codes: used.append(client) or [404]
        em._generate_for_codes = lambda codes, ctx: ("", [])
        em.emit(None, core_dir, client_package_name=".".join(pkg))
        return bool(used)
    finally:
        shutil.rmtree(root, ignore_errors=True)


class Gate(Obligation):
    functions = ["pyopenapi_gen.emitters.exceptions_emitter:ExceptionsEmitter._is_shared_core", "pyopenapi_gen.emitters.exceptions_emitter:ExceptionsEmitter.emit"]

    def __init__(self):
        self.name = "shared_core_gate"
        self.bounds = {"core_depth_below_root": "1..4", "client_package_depth": "1..3", "core_inside_client_package": "yes / no",
                       "core_is_prefix_named_sibling": "yes / no", "client_declares_no_error_codes": "yes / no"}

    def make_inputs(self, e):
        return {"core_depth": 1 + e.choose(4, "cd"), "client_depth": 1 + e.choose(3, "pd"), "inside": bool(e.choose(2, "inside")),
                "prefix_sibling": bool(e.choose(2, "sib")), "no_codes": bool(e.choose(2, "nocodes"))}

    def run_sym(self, inp):
        return call_catching(k_gate, _I(), inp["core_depth"], inp["client_depth"], inp["inside"], inp["prefix_sibling"], inp["no_codes"])

    def run_real(self, inp):
        return call_catching(k_gate, _R(), inp["core_depth"], inp["client_depth"], inp["inside"], inp["prefix_sibling"], inp["no_codes"])

    def prop(self, inp, r):
        if isinstance(r, Raised):
            return False
        if inp["inside"]:
            return True  # an embedded core: consulting the registry would be harmless, not demanded
        return r is True

    def describe_violation(self, inp, r):
        return "core %d levels below the project root, outside the client package: _is_shared_core -> %r (the registry is bypassed)" % (inp["core_depth"], r)


def mk_gate():
    return Gate()


# ------------------------------------------------------------------ K3: the alias module written for a shared core is self-consistent
def k_alias_module(P, prior_code, code):
    """real ExceptionsEmitter.emit (real ExceptionVisitor, real RenderContext) for a client declaring `code` into a shared core
    whose registry already holds another client with `prior_code`; returns the text written to exception_aliases.py"""
    ee = import_module(P.__name__ + ".emitters.exceptions_emitter")
    inst = P.__name__.startswith("sxi_")
    D = hook.SDict if inst else dict
    reg = D()
    reg["other.client"] = [prior_code]
    store = {"content": reg, "writes": 0, "exists": True, "files": {}}

    class _OsPath:
        @staticmethod
        def exists(p):
            return store["exists"]

        join = staticmethod(os.path.join)

    class _Os:
        path = _OsPath

    class _F(_File):
        def write(self, text):
            store["files"]["aliases"] = text

    def _open(path, mode="r"):
        return _F(store, mode)

    saved = (ee.__dict__.get("open"), ee.json, ee.os)
    ee.__dict__["open"] = _open
    ee.json = _Json(store)
    ee.os = _Os
    em = ee.ExceptionsEmitter(core_package_name="shared.core", overall_project_root="/proj")
    em._is_shared_core = lambda core_dir, client_package_name=None: True
    resp = P.IRResponse(status_code=hook.symint_to_str(code) if not isinstance(code, int) else str(code), description="e", content={})
    ok = P.IRResponse(status_code="200", description="ok", content={})
    op = P.IROperation(operation_id="op", method=P.HTTPMethod.GET, path="/x", summary=None, description=None, parameters=[], request_body=None, responses=[ok, resp], tags=[])
    spec = P.IRSpec(title="t", version="1", schemas={}, operations=[op], servers=[])
    try:
        em.emit(spec, "/proj/shared/core", client_package_name="this.client")
    finally:
        if saved[0] is None:
            ee.__dict__.pop("open", None)
        else:
            ee.__dict__["open"] = saved[0]
        ee.json, ee.os = saved[1], saved[2]
    return store["files"].get("aliases")


class AliasModule(Obligation):
    functions = ["pyopenapi_gen.emitters.exceptions_emitter:ExceptionsEmitter.emit", "pyopenapi_gen.visit.exception_visitor:ExceptionVisitor.visit",
                 "pyopenapi_gen.emitters.exceptions_emitter:ExceptionsEmitter._generate_for_codes"]

    def __init__(self):
        self.name = "alias_module_resolves"
        self.bounds = {"prior client's code": "symbolic int 400..599", "this client's code": "solver-chosen from %r (the document carries it as text)" % (self.CODES,)}

    CODES = [400, 404, 418, 422, 429, 499, 500, 503, 520, 599]

    def make_inputs(self, e):
        return {"prior": mk_sym_int("prior", 400, 599), "code": self.CODES[e.choose(len(self.CODES), "code")]}

    def run_sym(self, inp):
        return call_catching(k_alias_module, _I(), inp["prior"], inp["code"])

    def run_real(self, inp):
        return call_catching(k_alias_module, _R(), inp["prior"], inp["code"])

    def normalise(self, r):
        return r.simp() if is_sym(r) else r

    def verdict(self, inp, r):
        import ast

        from symx.core import Engine, concretize

        if isinstance(r, Raised):
            return "emit raised %s" % r.kind
        if r is None:
            return "exception_aliases.py was not written"
        text = concretize(r, Engine.cur._ensure_model()) if (is_sym(r) and not r.is_concrete()) else (r.simp() if is_sym(r) else r)
        try:
            tree = ast.parse(text)
        except SyntaxError as ex:
            return "exception_aliases.py does not parse: %s" % ex
        bound = set()
        for node in tree.body:
            if isinstance(node, ast.ImportFrom):
                bound.update(a.asname or a.name for a in node.names)
            elif isinstance(node, ast.Import):
                bound.update((a.asname or a.name).split(".")[0] for a in node.names)
            elif isinstance(node, ast.ClassDef):
                for b in node.bases:
                    if isinstance(b, ast.Name) and b.id not in bound:
                        return "class %s derives from %s, which the module neither imports nor defines" % (node.name, b.id)
                bound.add(node.name)
        return None

    def prop(self, inp, r):
        return self.verdict(inp, r) is None

    def describe_violation(self, inp, r):
        return "other client declares %r, this client %r: %s" % (inp["prior"], inp["code"], self.verdict(inp, r))


def mk_alias_module():
    return AliasModule()


def run(tier, rep, only=None):
    sp = [(MOD, "mk_gate", ()), (MOD, "mk_alias_module", ()), (MOD, "mk_step", (1, 1, True)), (MOD, "mk_step", (1, 1)), (MOD, "mk_step", (1, 2)), (MOD, "mk_step", (2, 1))]
    if tier == "thorough":
        sp.append((MOD, "mk_step", (2, 2)))
        sp.append((MOD, "mk_step", (1, 3)))
    from props import c09h

    sp.extend(c09h.specs(tier, "c11"))
    if only:
        sp = [s for s in sp if only in explore.build(s).name]
    rep.bounds = {"registry": "prior state: <=2 (quick) / <=3 clients with <=2/3 codes each, every code a symbolic int 400..599", "gate": "core depth 1..4 x client depth 1..3 x inside/outside"}
    rep.stubs = ["open / json.load / json.dump / os.path.exists of exceptions_emitter -> in-memory registry file", "PythonConstructRenderer.render_class runs for real"]
    rep.assumptions = ["one inductive step from an arbitrary sorted registry covers histories of any length", "the re-import of earlier clients is not decided"]
    res = explore.run_all(sp, log=lambda m: print("[c11]", m, flush=True))
    for s in sp:
        ob = explore.build(s)
        rep.add_symx(res[ob.name], functions=ob.functions, bounds=ob.bounds)


def replay(path):
    v = json.load(open(path))["violation"]
    if v["obligation"].startswith("shared_core_history"):
        from props import c09h

        ob, inp = c09h.replay_ob(v)
        r = ob.run_real(inp)
        why = ob.verdict(inp, r, ob.which)
        print("replay %s inputs=%r -> %s" % (v["obligation"], inp, "holds" if why is None else why))
        return 0 if why is None else 1
    if v["obligation"] == "alias_module_resolves":
        ob = AliasModule()
        why = ob.verdict(v["inputs"], ob.run_real(v["inputs"]))
        print("replay %s inputs=%r -> %s" % (v["obligation"], v["inputs"], "holds" if why is None else why))
        return 0 if why is None else 1
    if v["obligation"].startswith("shared_core_gate"):
        ob = Gate()
    else:
        ob = RegistryStep(3, 3)
        v["inputs"]["prior"] = [tuple(x) for x in v["inputs"]["prior"]]
    r = ob.run_real(v["inputs"])
    ok = bool(ob.prop(v["inputs"], r))
    print("replay %s inputs=%r -> %r holds=%s" % (v["obligation"], v["inputs"], r, ok))
    return 0 if ok else 1
