"""C08 — Parsing cyclic and deep schema graphs terminates with balanced state (engine E1 / symx on the real parser).

K1  rest state   the instrumented runs of props/c02.py (real build_schemas on cyclic templates, symbolic schema names,
                 solver-decided declaration order) with the tracker's state as the assertion: loading returns, and
                 afterwards recursion_depth == 0, the stack is empty, no schema is IN_PROGRESS, every declared name is
                 present in the result.
K3  depth cut    real build_schemas on chains / nestings of concrete length L with the depth limit a SYMBOLIC integer:
                 loading returns (no RecursionError), the tracker is at rest, every declared name is present, and a depth
                 placeholder exists only if the chain is deeper than the limit.
"""
from __future__ import annotations

import json
import os
from importlib import import_module

from props import c02
from symx import explore, hook
from symx.core import SymInt, is_sym, mk_sym_int
from symx.explore import Obligation, Raised, call_catching

MOD = "props.c08"


class RestState(c02.Fidelity):
    KIND = "rest_state"

    def verdict(self, inp, r):
        if r is None:
            return True, ""
        if isinstance(r, Raised):
            return False, "loading raised %r" % (r,)
        out, (depth, stack, in_progress, not_started) = r
        if depth != 0:
            return False, "recursion_depth is %r after build_schemas" % (depth,)
        if stack != 0:
            return False, "%d names left on the schema stack" % stack
        if in_progress:
            return False, "%d schemas left IN_PROGRESS" % in_progress
        for i, (count, props, req, shape, members, *_more) in enumerate(out):
            if count < 1:
                return False, "declared schema #%d is missing from the result" % i
        return True, ""

    def known(self, inp, r):
        return None


def mk(template, lens, tokens=False):
    return RestState(template, lens, tokens)


# ------------------------------------------------------------------ K3
def chain_spec(kind, length):
    """kind 'refs': S0 -> S1 -> ... -> S(L-1) through $ref properties; 'inline': one schema nesting L inline objects;
    'array': S0.items -> S1.items -> ..."""
    ref = lambda n: {"$ref": "#/components/schemas/" + n}  # noqa: E731
    if kind == "inline":
        node = {"type": "string"}
        for k in range(length):
            node = {"type": "object", "properties": {"p%d" % k: node}}
        return {"Deep": node}
    if kind in ("allof", "oneof"):
        # anonymous compositions nested in one another: no named schema on the way down
        node = {"type": "object", "properties": {"leaf": {"type": "string"}}}
        for k in range(length):
            node = {"allOf": [node, {"type": "object", "properties": {"q%d" % k: {"type": "string"}}}]} if kind == "allof" else {"oneOf": [node, {"type": "integer"}]}
        return {"Deep": node}
    out = {}
    for k in range(length):
        nxt = ref("S%d" % (k + 1)) if k + 1 < length else {"type": "string"}
        if kind == "array":
            out["S%d" % k] = {"type": "object", "properties": {"next": {"type": "array", "items": nxt}}}
        else:
            out["S%d" % k] = {"type": "object", "properties": {"next": nxt, "v": {"type": "integer"}}}
    return out


def k_depth(P, kind, length, limit):
    ext = import_module(P.__name__ + ".core.loader.schemas.extractor")
    raw = chain_spec(kind, length)
    inst = P.__name__.startswith("sxi_")
    D = hook.SDict if inst else dict
    raw = hook.to_sx(raw) if inst else raw
    # the limit is read from the environment (ParsingContext.__post_init__ and unified_cycle_check): the instrumented run
    # gets the symbolic limit through the engine's environment hook, the real run through os.environ
    saved = os.environ.get("PYOPENAPI_MAX_DEPTH")
    try:
        if inst:
            hook.ENV["environ"] = {"PYOPENAPI_MAX_DEPTH": limit}
        else:
            os.environ["PYOPENAPI_MAX_DEPTH"] = str(limit)
        ctx = ext.build_schemas(raw, D(schemas=raw))
    finally:
        hook.ENV.pop("environ", None)
        if saved is None:
            os.environ.pop("PYOPENAPI_MAX_DEPTH", None)
        else:
            os.environ["PYOPENAPI_MAX_DEPTH"] = saved
    u = ctx.unified_cycle_context
    states = [str(getattr(s, "value", s)) for s in u.schema_states.values()]
    present = sum(1 for n in chain_spec(kind, length) if n in ctx.parsed_schemas)
    placeholders = sum(1 for v in ctx.parsed_schemas.values() if getattr(v, "_max_depth_exceeded_marker", False))
    return (u.recursion_depth, len(u.schema_stack), states.count("in_progress"), present, placeholders + len(u.depth_exceeded_schemas))


class DepthCut(Obligation):
    functions = ["pyopenapi_gen.core.parsing.unified_cycle_detection:unified_cycle_check", "pyopenapi_gen.core.parsing.unified_cycle_detection:unified_enter_schema",
                 "pyopenapi_gen.core.parsing.unified_cycle_detection:unified_exit_schema", "pyopenapi_gen.core.parsing.schema_parser:_parse_schema",
                 "pyopenapi_gen.core.loader.schemas.extractor:build_schemas"]

    def __init__(self, kind, length):
        self.kind, self.length = kind, length
        self.name = "depth_cut/%s/L=%d" % (kind, length)
        self.bounds = {"chain": kind, "length": length, "PYOPENAPI_MAX_DEPTH": "symbolic int 0..%d" % (length + 3)}

    def make_inputs(self, e):
        return {"limit": mk_sym_int("limit", 0, self.length + 3)}

    def run_sym(self, inp):
        return call_catching(k_depth, c02._I(), self.kind, self.length, inp["limit"])

    def run_real(self, inp):
        return call_catching(k_depth, c02._R(), self.kind, self.length, inp["limit"])

    def verdict(self, inp, r):
        if isinstance(r, Raised):
            return False, "loading raised %r" % (r,)
        depth, stack, in_progress, present, cut = r
        if depth != 0 or stack != 0 or in_progress != 0:
            return False, "tracker not at rest: depth=%r stack=%r in_progress=%r" % (depth, stack, in_progress)
        n = len(chain_spec(self.kind, self.length))
        if present != n:
            return False, "%d of %d declared schemas present" % (present, n)
        lim = inp["limit"]
        # nesting depth reached by the deepest node (each named level / inline object / array item costs one or two enters)
        if cut and bool(lim > 4 * self.length + 4):
            return False, "depth placeholder created although the limit %r exceeds any depth this document can reach" % (lim,)
        # the cut must actually happen: a chain clearly deeper than the limit cannot be parsed to the bottom
        if self.kind in ("refs", "array") and not cut and bool(lim + 3 <= self.length):
            return False, "no depth placeholder although the chain (%d named levels) is deeper than the limit %r" % (self.length, lim)
        if self.kind in ("allof", "oneof") and not cut and bool(2 * lim + 4 <= self.length):
            return False, "no depth cut although %d anonymous compositions nest far deeper than the limit %r" % (self.length, lim)
        return True, ""

    def prop(self, inp, r):
        return self.verdict(inp, r)[0]

    def known(self, inp, r):
        if self.kind in ("allof", "oneof") and not self.verdict(inp, r)[0] and not isinstance(r, Raised) and r[:3] == (0, 0, 0):
            return "anonymous-composition-nesting-not-cut"
        return None

    def describe_violation(self, inp, r):
        return "%s chain of %d with PYOPENAPI_MAX_DEPTH=%r: %s" % (self.kind, self.length, inp["limit"], self.verdict(inp, r)[1])


def mk_depth(kind, length):
    return DepthCut(kind, length)


def specs(tier):
    # names of three characters are C02's subject (they cost most of its thorough tier); here only the mutual cycle keeps them
    out = [(MOD, f, a) for (_, f, a) in c02.specs(tier, "mk") if not (tuple(a[1]) == (3, 2) and a[0] != "mutual")]
    for kind in ("refs", "inline", "array"):
        for L in ((3, 6) if tier == "quick" else (3, 6, 10, 14)):
            out.append((MOD, "mk_depth", (kind, L)))
    for kind in ("allof", "oneof"):
        for L in ((6,) if tier == "quick" else (6, 12)):
            out.append((MOD, "mk_depth", (kind, L)))
    # the registry is keyed by class names that are sanitised again on every look-up: the sanitiser must be a fixed point
    for n in (range(0, 4) if tier == "quick" else range(0, 6)):
        out.append(("props.c04", "mk_idem", (n, "sanitize_class_name")))
    return out


def run(tier, rep, only=None):
    sp = specs(tier)
    if only:
        sp = [s for s in sp if only in explore.build(s).name]
    rep.bounds = {"rest_state": "templates, names and orders of C02 (%s)" % ", ".join(sorted(c02.TEMPLATES)),
                  "depth_cut": "ref / inline / array chains of length 3, 6 (quick) .. 14 (thorough), limit symbolic"}
    rep.stubs = ["logging/warnings -> no-op", "os.environ.get('PYOPENAPI_MAX_DEPTH') -> the symbolic limit"]
    rep.assumptions = ["termination in general is argued, not solved: every recursive call descends into a strictly smaller sub-node or enters a named schema, "
                       "and the depth cut bounds the latter; the runs confirm it on the template family",
                       "Python's own recursion limit for the default depth 150 is not decided here"]
    res = explore.run_all(sp, log=lambda m: print("[c08]", m, flush=True), slice_s=15.0)
    for s in sp:
        ob = explore.build(s)
        rep.add_symx(res[ob.name], functions=ob.functions, bounds=ob.bounds)


def replay(path):
    v = json.load(open(path))["violation"]
    parts = v["obligation"].split("/")
    if parts[0] == "depth_cut":
        ob = DepthCut(parts[1], int(parts[2].split("=")[1]))
    elif parts[0] == "lemma":
        from props import c04

        return c04.replay(path)
    else:
        ob = RestState(parts[1], [1] * c02.TEMPLATES[parts[1]][0])
    r = ob.run_real(v["inputs"])
    ok, why = ob.verdict(v["inputs"], r)
    print("replay %s inputs=%r -> holds=%s %s" % (v["obligation"], v["inputs"], ok, why))
    return 0 if ok else 1
