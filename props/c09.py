"""C09 — Generation is deterministic; re-running on unchanged input is a no-op (engine E1 / symx; partial).

Kernels decided here (the whole-tree byte comparison across processes and hash seeds is outside this family):

K1 `ClientGenerator._show_diffs` — the function that decides whether a non-force run "reports no differences".
    The existing tree and the freshly generated tree are in-memory file trees whose file CONTENTS are symbolic strings
    (over a / space / LF / CR / FF / U+2028 / `#`) and whose existing files are present or absent by a symbolic boolean.
    P: the function returns True exactly when some generated .py file is missing from the existing tree or has
    different content.  (`read_text` is modelled with universal-newline translation, `difflib.unified_diff` by its
    contract "no output iff the line lists are equal"; both models are checked on every path by running the real
    function on real temporary files.)

K2 `ImportCollector.get_formatted_imports` / `get_import_statements` / `RenderContext.render_imports` — the rendering of
    an import block must not depend on the order in which imports were registered.  Sets and dicts of the instrumented
    code are insertion-ordered association lists, so the registration order stands for the hash-seed dependent iteration
    order of the real sets; module and symbol names are symbolic strings, the registration order is solver-chosen.
    P: every registration order renders the same text.

K3 `ModelsEmitter._generate_init_py_content` — same metamorphic claim for the models/__init__.py export list: schema
    names symbolic, dict insertion order solver-chosen.

K4 shared-core histories (props/c09h.py): generate a; generate b; re-run either without force - through the real
    generate() and the real ExceptionsEmitter on the in-memory file system, status codes symbolic.  P: the re-run of an
    unchanged document succeeds and touches nothing.
"""
from __future__ import annotations

import contextlib
import io
import itertools
import json
import os
import shutil
import tempfile
from importlib import import_module

from symx import explore, hook
from symx.core import join as sjoin
from symx.core import SymBool, SymStr, is_sym, mk_sym_bool, mk_sym_str, ranges_of_pts
from symx.explore import Obligation, Raised, call_catching

hook.install()
MOD = "props.c09"
TEXT = ranges_of_pts([ord(c) for c in "a \n\r\x0c\u2028#"])
NAMES = ranges_of_pts([ord(c) for c in "abAB_1."])


def _I():
    import sxi_pyopenapi_gen as P  # noqa

    return P


def _R():
    import pyopenapi_gen as P

    return P


def _simp(x):
    return x.simp() if is_sym(x) else x


# ------------------------------------------------------------------ K1
FILES = ["client.py", "models/item.py"]


def _universal(t):
    """text-mode read: CRLF and CR become LF"""
    return t.replace("\r\n", "\n").replace("\r", "\n")


class MemPath:
    def __init__(self, fs, parts):
        self.fs, self.parts = fs, tuple(parts)

    @staticmethod
    def of(fs, s):
        return MemPath(fs, [p for p in str(s).split("/") if p])

    def rglob(self, pat):
        assert pat == "*.py"
        n = len(self.parts)
        return [MemPath(self.fs, k) for k in sorted(self.fs) if k[:n] == self.parts and len(k) > n and k[-1].endswith(".py")]

    def relative_to(self, other):
        o = MemPath.of(self.fs, other).parts if not isinstance(other, MemPath) else other.parts
        if self.parts[:len(o)] != o:
            raise ValueError("not relative")
        return MemPath(self.fs, self.parts[len(o):])

    def __truediv__(self, o):
        return MemPath(self.fs, self.parts + (o.parts if isinstance(o, MemPath) else tuple(p for p in str(o).split("/") if p)))

    def exists(self):
        return self.parts in self.fs

    def read_text(self):
        return _universal(self.fs[self.parts])

    def read_bytes(self):
        return self.fs[self.parts]  # compared for equality only: the untranslated text stands for its encoding

    def __str__(self):
        return "/" + "/".join(self.parts)

    _sx_str_ = __str__


def _model_unified_diff(a, b, fromfile="", tofile="", **kw):
    a, b = list(a), list(b)
    if len(a) == len(b) and all(bool(x == y) for x, y in zip(a, b)):
        return iter(())
    return iter(["--- " + str(fromfile), "+++ " + str(tofile), "@@ @@"])


def k_show_diffs_sym(P, files):
    """files: list of (relative name, old text | None, new text)"""
    cg = import_module(P.__name__ + ".generator.client_generator")
    fs = {}
    for name, old, new in files:
        parts = tuple(name.split("/"))
        if old is not None:
            fs[("old",) + parts] = old
        fs[("new",) + parts] = new
    import difflib

    saved = (cg.Path, difflib.unified_diff)
    cg.Path = lambda s: MemPath.of(fs, s)
    difflib.unified_diff = _model_unified_diff
    try:
        g = cg.ClientGenerator(verbose=False)
        with contextlib.redirect_stdout(io.StringIO()):
            return bool(g._show_diffs("/old", "/new"))
    finally:
        cg.Path, difflib.unified_diff = saved


def k_show_diffs_real(P, files):
    cg = import_module(P.__name__ + ".generator.client_generator")
    root = tempfile.mkdtemp(prefix="c09_")
    try:
        for name, old, new in files:
            for side, text in (("old", old), ("new", new)):
                if text is None:
                    continue
                p = os.path.join(root, side, name)
                os.makedirs(os.path.dirname(p), exist_ok=True)
                with open(p, "w", newline="", encoding="utf-8") as fh:
                    fh.write(text)
        os.makedirs(os.path.join(root, "old"), exist_ok=True)
        g = cg.ClientGenerator(verbose=False)
        with contextlib.redirect_stdout(io.StringIO()):
            return bool(g._show_diffs(os.path.join(root, "old"), os.path.join(root, "new")))
    finally:
        shutil.rmtree(root, ignore_errors=True)


class ShowDiffs(Obligation):
    functions = ["pyopenapi_gen.generator.client_generator:ClientGenerator._show_diffs"]
    alphabet = TEXT

    def __init__(self, nfiles, lo, ln):
        self.nfiles, self.lo, self.ln = nfiles, lo, ln
        self.name = "show_diffs/files=%d/old=%d/new=%d" % (nfiles, lo, ln)
        self.bounds = {"files": FILES[:nfiles], "old_text_len": lo, "new_text_len": ln, "alphabet": "a SP LF CR FF U+2028 #", "old file present": "symbolic boolean"}

    def make_inputs(self, e):
        inp = {}
        for i in range(self.nfiles):
            inp["present%d" % i] = mk_sym_bool("present%d" % i)
            inp["old%d" % i] = mk_sym_str(self.lo, "old%d" % i, TEXT)
            inp["new%d" % i] = mk_sym_str(self.ln, "new%d" % i, TEXT)
        return inp

    def _files(self, inp):
        return [(FILES[i], inp["old%d" % i] if bool(inp["present%d" % i]) else None, inp["new%d" % i]) for i in range(self.nfiles)]

    def run_sym(self, inp):
        files = self._files(inp)
        return (call_catching(k_show_diffs_sym, _I(), files), [f[1] is not None for f in files])

    def run_real(self, inp):
        files = self._files(inp)
        return (call_catching(k_show_diffs_real, _R(), files), [f[1] is not None for f in files])

    def prop(self, inp, r):
        res, present = r
        if isinstance(res, Raised):
            return False
        differs = False
        for i in range(self.nfiles):
            if not present[i]:
                differs = True
                continue
            o, n = inp["old%d" % i], inp["new%d" % i]
            if len(o) != len(n) or not bool(o == n):
                differs = True
        return res == differs

    def known(self, inp, r):
        return None

    def describe_violation(self, inp, r):
        return "existing vs generated %r: _show_diffs returned %r" % ([(FILES[i], inp["old%d" % i] if r[1][i] else "<missing>", inp["new%d" % i]) for i in range(self.nfiles)], r[0])


def mk_diff(nfiles, lo, ln):
    return ShowDiffs(nfiles, lo, ln)


# ------------------------------------------------------------------ K2
def k_imports(P, regs, order, mode):
    """regs: list of (kind, module, name); kind in std / rel / plain / cond.  Registered in the given order."""
    rc = import_module(P.__name__ + ".context.render_context")
    ctx = rc.RenderContext(core_package_name="core", package_root_for_generated_code="/tmp/x/pkg", overall_project_root="/tmp/x", output_package_name="pkg")
    ctx.set_current_file("/tmp/x/pkg/models/thing.py")
    ic = ctx.import_collector
    for i in order:
        kind, module, name = regs[i]
        if kind == "std":
            ic.add_import(module, name)
        elif kind == "rel":
            ic.add_relative_import("." + module, name)
        elif kind == "plain":
            ic.add_plain_import(module)
        else:
            ctx.add_conditional_import("TYPE_CHECKING", module, name)
    if mode == "formatted":
        return ctx.render_imports()
    stmts = ic.get_import_statements()
    return sjoin("\n", stmts) if any(is_sym(x) for x in stmts) else "\n".join(stmts)


class ImportOrder(Obligation):
    functions = ["pyopenapi_gen.context.import_collector:ImportCollector.get_formatted_imports",
                 "pyopenapi_gen.context.import_collector:ImportCollector.get_import_statements",
                 "pyopenapi_gen.context.render_context:RenderContext.render_imports",
                 "pyopenapi_gen.context.render_context:RenderContext.add_conditional_import"]
    alphabet = NAMES

    def __init__(self, kinds, nlen, mode):
        self.kinds, self.nlen, self.mode = tuple(kinds), nlen, mode
        self.name = "import_order/%s/len=%d/%s" % ("+".join(kinds), nlen, mode)
        self.bounds = {"registrations": list(kinds), "name_len": nlen, "alphabet": "abAB_1.", "orders": "all permutations, solver-chosen"}
        self.perms = list(itertools.permutations(range(len(kinds))))

    def make_inputs(self, e):
        inp = {}
        for i, _k in enumerate(self.kinds):
            inp["m%d" % i] = mk_sym_str(self.nlen, "m%d" % i, NAMES)
            inp["n%d" % i] = mk_sym_str(1, "n%d" % i, NAMES)
        inp["order"] = e.choose(len(self.perms), "order")
        return inp

    def _regs(self, inp):
        return [(k, inp["m%d" % i], inp["n%d" % i]) for i, k in enumerate(self.kinds)]

    def run_sym(self, inp):
        P = _I()
        return (call_catching(k_imports, P, self._regs(inp), self.perms[0], self.mode),
                call_catching(k_imports, P, self._regs(inp), self.perms[inp["order"]], self.mode))

    def run_real(self, inp):
        P = _R()
        return (call_catching(k_imports, P, self._regs(inp), self.perms[0], self.mode),
                call_catching(k_imports, P, self._regs(inp), self.perms[inp["order"]], self.mode))

    def normalise(self, r):
        return tuple(_simp(x) for x in r)

    def prop(self, inp, r):
        a, b = r
        if isinstance(a, Raised) or isinstance(b, Raised):
            return isinstance(a, Raised) and isinstance(b, Raised)
        if len(a) != len(b):
            return False
        return a == b

    def describe_violation(self, inp, r):
        return "registrations %r in order %r render %r, in declaration order %r" % (self._regs(inp), self.perms[inp["order"]], _simp(r[1]), _simp(r[0]))


def mk_imports(kinds, nlen, mode):
    return ImportOrder(kinds, nlen, mode)


# ------------------------------------------------------------------ K3
def k_models_init(P, names, order):
    me = import_module(P.__name__ + ".emitters.models_emitter")
    inst = P.__name__.startswith("sxi_")
    D = hook.SDict if inst else dict
    schemas = D()
    for i in order:
        n = names[i]
        s = P.IRSchema(name=n, type="object", properties={"v": P.IRSchema(type="string")})
        s.generation_name = n
        s.final_module_stem = n.lower()
        schemas[n] = s
    em = me.ModelsEmitter.__new__(me.ModelsEmitter)
    em.parsed_schemas = schemas
    em.discriminator_skip_list = set()
    em.context = None
    return em._generate_init_py_content()


class ModelsInitOrder(Obligation):
    functions = ["pyopenapi_gen.emitters.models_emitter:ModelsEmitter._generate_init_py_content"]
    alphabet = ranges_of_pts([ord(c) for c in "ABab1"])  # no separators: names that differ ignoring case stay distinct class names

    def __init__(self, n, nlen):
        self.n, self.nlen = n, nlen
        self.name = "models_init_order/n=%d/len=%d" % (n, nlen)
        self.bounds = {"schemas": n, "name_len": nlen, "alphabet": "ABab1", "orders": "all permutations"}
        self.perms = list(itertools.permutations(range(n)))

    def make_inputs(self, e):
        inp = {"s%d" % i: "S" + mk_sym_str(self.nlen, "s%d" % i, self.alphabet) for i in range(self.n)}
        # distinct schema names (two equal keys are one schema)
        for i in range(self.n):
            for j in range(i + 1, self.n):
                e.assume(inp["s%d" % i].lower() != inp["s%d" % j].lower())  # module stems are de-collided before this point (C20)
        inp["order"] = e.choose(len(self.perms), "order")
        return inp

    def _names(self, inp):
        return [inp["s%d" % i] for i in range(self.n)]

    def run_sym(self, inp):
        P = _I()
        return (call_catching(k_models_init, P, self._names(inp), self.perms[0]), call_catching(k_models_init, P, self._names(inp), self.perms[inp["order"]]))

    def run_real(self, inp):
        P = _R()
        return (call_catching(k_models_init, P, self._names(inp), self.perms[0]), call_catching(k_models_init, P, self._names(inp), self.perms[inp["order"]]))

    normalise = ImportOrder.normalise
    prop = ImportOrder.prop

    def describe_violation(self, inp, r):
        return "schemas %r in order %r give %r, in declaration order %r" % (self._names(inp), self.perms[inp["order"]], _simp(r[1]), _simp(r[0]))


def mk_models_init(n, nlen):
    return ModelsInitOrder(n, nlen)


# ------------------------------------------------------------------ K5: set iteration order as a solver-chosen permutation
def _with_order(perm_of, fn, *a):
    """run fn with every iteration over an instrumented set reordered by perm_of(list) (None: insertion order)"""
    saved = hook.ENV.get("set_order")
    hook.ENV["set_order"] = perm_of
    try:
        return fn(*a)
    finally:
        if saved is None:
            hook.ENV.pop("set_order", None)
        else:
            hook.ENV["set_order"] = saved


def k_path_params(P, v1, v2, v3):
    """signature order of the arguments the processor adds for path variables nobody declared"""
    pp = import_module(P.__name__ + ".visit.endpoint.processors.parameter_processor")
    rc = import_module(P.__name__ + ".context.render_context")
    path = "/x/{" + v1 + "}/y/{" + v2 + "}" + ("/z/{" + v3 + "}" if v3 is not None else "")
    op = P.IROperation(operation_id="op", method=P.HTTPMethod.GET, path=path, summary=None, description=None, parameters=[], request_body=None, responses=[], tags=[])
    ctx = rc.RenderContext(core_package_name="core", package_root_for_generated_code="/tmp/x", overall_project_root="/tmp")
    ctx.set_current_file("/tmp/x/endpoints/e.py")
    ordered, _, _ = pp.EndpointParameterProcessor({}).process_parameters(op, ctx)
    return [p["name"] for p in ordered]


def k_op_tags(P, t1, t2, t3):
    """tags of a parsed operation, in the order later used for grouping and for the mock client"""
    ops_mod = import_module(P.__name__ + ".core.loader.operations")
    ctx_mod = import_module(P.__name__ + ".core.parsing.context")
    D = hook.SDict if P.__name__.startswith("sxi_") else dict
    tags = [t1, t2] + ([t3] if t3 is not None else [])
    paths = D()
    paths["/x"] = D(get=D(operationId="getx", tags=tags, responses={"200": {"description": "ok"}}))
    ops = ops_mod.parse_operations(paths, D(), D(), D(), ctx_mod.ParsingContext())
    return [list(o.tags) for o in ops]


def k_endpoint_text(P, v1, v2, v3):
    """text of an endpoint module whose operation has two undeclared path variables and two tags"""
    from props import c13sig

    ee = import_module(P.__name__ + ".emitters.endpoints_emitter")
    rc = import_module(P.__name__ + ".context.render_context")
    from props import c07

    op = P.IROperation(operation_id="do_it", method=P.HTTPMethod.GET, path="/x/{" + v1 + "}/y/{" + v2 + "}", summary="s", description=None,
                       parameters=[P.IRParameter(name="flt", param_in="query", required=False, schema=P.IRSchema(type="string"))], request_body=None,
                       responses=[P.IRResponse(status_code="200", description="ok", content={"application/json": P.IRSchema(type="string")}),
                                  P.IRResponse(status_code="404", description="no", content={}), P.IRResponse(status_code="500", description="err", content={})],
                       tags=["things"])
    c = rc.RenderContext(core_package_name="core", package_root_for_generated_code="/tmp/x/pkg", overall_project_root="/tmp/x", parsed_schemas={})
    c.file_manager = c07._FM()
    em = ee.EndpointsEmitter(c)
    c13sig._patch(P)
    saved = ee.Path
    ee.Path = lambda s: c07._FakePath(s)
    try:
        em.emit([op], "/tmp/x/pkg")
    finally:
        ee.Path = saved
    return [t for p_, t in c.file_manager.writes if str(p_).endswith("things.py")]


def k_tag_spelling(P, v1, v2, v3):
    """module file / class / client attribute chosen for two operations whose tags are two symbolic spellings (the spellings
    may normalise to one tag key, in which case EndpointsEmitter.emit picks the canonical one by tag_score)"""
    from props import c07

    # the symbolic two-character cores sit between concrete letters ("a" + v + "c"), so that two spellings of one tag key
    # that tie on every structural score and still give different module names ("ab_c" / "a_bc") are inside the bound
    groups, written, tuples = c07.k_routing(P, [["a" + v1 + "c"], ["a" + v2 + "c"]])
    return [[(c07._file_text(p_), list(ix)) for p_, ix in groups], [list(w) for w in written], [list(t) for t in tuples]]


SET_KERNELS = {"path_params": k_path_params, "op_tags": k_op_tags, "endpoint_text": k_endpoint_text, "tag_spelling": k_tag_spelling}
VARS = ranges_of_pts([ord(c) for c in "abAB_1"])


class SetOrder(Obligation):
    """The result must not depend on the iteration order of any set the code builds (that order follows PYTHONHASHSEED)."""

    alphabet = VARS
    timeout_ms = 30000

    def __init__(self, kind, n, mode, lens=None):
        self.kind, self.n, self.mode = kind, n, mode
        self.lens = tuple(lens) if lens else (1,) * n
        self.name = "set_order/%s/n=%d/%s" % (kind, n, mode) + ("/lens=%s" % "x".join(map(str, self.lens)) if lens else "")
        self.functions = {"path_params": ["pyopenapi_gen.visit.endpoint.processors.parameter_processor:EndpointParameterProcessor._ensure_path_variables_as_params",
                                          "pyopenapi_gen.helpers.url_utils:extract_url_variables"],
                          "op_tags": ["pyopenapi_gen.core.loader.operations.parser:parse_operations"],
                          "tag_spelling": ["pyopenapi_gen.emitters.endpoints_emitter:EndpointsEmitter.emit", "pyopenapi_gen.core.utils:NameSanitizer.normalize_tag_key",
                                           "pyopenapi_gen.visit.client_visitor:ClientVisitor.visit"],
                          "endpoint_text": ["pyopenapi_gen.emitters.endpoints_emitter:EndpointsEmitter.emit", "pyopenapi_gen.visit.endpoint.endpoint_visitor:EndpointVisitor.emit_endpoint_client_class",
                                            "pyopenapi_gen.visit.endpoint.processors.parameter_processor:EndpointParameterProcessor.process_parameters"]}[kind]
        self.bounds = {"names": "%d symbolic names of lengths %r over 'abAB_1', pairwise distinct (one may be a prefix of another)" % (n, list(self.lens)),
                       "set iteration order": "all iterations reversed (one solver-chosen bit)" if mode == "reverse" else "each of the first 4 multi-element set iterations reversed or not (solver-chosen bits)"}

    def make_inputs(self, e):
        inp = {"v%d" % i: mk_sym_str(self.lens[i], "v%d" % i, VARS) for i in range(self.n)}
        for i in range(self.n):
            for j in range(i + 1, self.n):
                if self.lens[i] == self.lens[j]:
                    e.assume(inp["v%d" % i].lower() != inp["v%d" % j].lower())
        inp["bits"] = [bool(e.choose(2, "rev%d" % k)) for k in range(1 if self.mode == "reverse" else 4)]
        return inp

    def run_sym(self, inp):
        P = _I()
        args = [inp["v%d" % i] for i in range(self.n)] + [None] * (3 - self.n)
        fn = SET_KERNELS[self.kind]
        base = call_catching(fn, P, *args)
        bits = list(inp["bits"])
        state = {"k": 0}

        def order(ks):
            if self.mode == "reverse":
                return list(reversed(ks)) if bits[0] else ks
            k = state["k"]
            state["k"] += 1
            return list(reversed(ks)) if (k < len(bits) and bits[k]) else ks

        return (base, _with_order(order, call_catching, fn, P, *args))

    def run_real(self, inp):
        """the uninstrumented code under several hash seeds (one persistent interpreter per seed)"""
        args = [inp["v%d" % i] for i in range(self.n)] + [None] * (3 - self.n)
        return _Seeds(self.kind, args)

    def _canon(self, x):
        """order-insensitive form, for comparing the model's insertion-order run with one real interpreter"""
        if isinstance(x, Raised):
            return x

        def n(v):
            return [n(y) for y in v] if isinstance(v, list) else _simp(v)

        v = n(x)
        if self.kind == "endpoint_text":
            return sorted("\n".join(v).split("\n"))
        flat = v if not (v and isinstance(v[0], list)) else [y for z in v for y in z]
        return sorted(str(y) for y in flat)

    def normalise(self, r):
        return self._canon(r[0])

    def prop(self, inp, r):
        def eq(x, y):
            if isinstance(x, Raised) or isinstance(y, Raised):
                return isinstance(x, Raised) and isinstance(y, Raised)
            if isinstance(x, list) and isinstance(y, list):
                return len(x) == len(y) and all(eq(p, q) for p, q in zip(x, y))
            if isinstance(x, list) or isinstance(y, list):
                return False
            return len(x) == len(y) and bool(x == y)

        return all(eq(r[0], o) for o in r[1:])

    def describe_violation(self, inp, r):
        def n(x):
            return [n(y) for y in x] if isinstance(x, list) else _simp(x)

        return "names %r: the result depends on set iteration order (hash seed): %s" % (
            [_simp(inp["v%d" % i]) for i in range(self.n)], " vs ".join(sorted(set(str(n(o))[:200] for o in r))))


SEEDS = list(range(12))
_SERVERS = {}


class _Seeds:
    """results of one kernel under the hash seeds SEEDS, computed on demand: index 0 is this process (path-witness
    validation needs nothing else), the other interpreters are started only when a counterexample has to be replayed"""

    def __init__(self, kind, args):
        self.kind, self.args, self.cache = kind, args, {}

    def __len__(self):
        return len(SEEDS)

    def _get(self, i):
        if i not in self.cache:
            if i == 0:
                self.cache[i] = call_catching(SET_KERNELS[self.kind], _R(), *self.args)
            else:
                self.cache[i] = seed_call(SEEDS[i], self.kind, self.args)
        return self.cache[i]

    def __getitem__(self, i):
        if isinstance(i, slice):
            return [self._get(k) for k in range(*i.indices(len(SEEDS)))]
        return self._get(i)

    def __iter__(self):
        return iter([self._get(k) for k in range(len(SEEDS))])


def seed_call(seed, kind, args, _retry=True):
    """run SET_KERNELS[kind] on the uninstrumented code in a persistent interpreter started with PYTHONHASHSEED=seed"""
    import atexit
    import subprocess
    import sys

    srv = _SERVERS.get(seed)
    if srv is None or srv.poll() is not None:
        env = dict(os.environ, PYTHONHASHSEED=str(seed))
        srv = subprocess.Popen([sys.executable, "-c", "import sys; sys.setrecursionlimit(20000); import logging; logging.disable(logging.CRITICAL); from props import c09; c09.seed_server()"],
                               stdin=subprocess.PIPE, stdout=subprocess.PIPE, stderr=subprocess.DEVNULL, text=True, env=env)
        _SERVERS[seed] = srv
        atexit.register(lambda s=srv: s.kill())
    line = ""
    for attempt in (0, 1):
        try:
            srv.stdin.write(json.dumps({"kind": kind, "args": args}) + "\n")
            srv.stdin.flush()
            line = srv.stdout.readline()
        except (BrokenPipeError, OSError):
            line = ""
        if line:
            break
        _SERVERS.pop(seed, None)  # the interpreter went away (e.g. killed under memory pressure): start a fresh one once
        if attempt == 0 and _retry:
            return seed_call(seed, kind, args, _retry=False)
        break
    if not line:
        raise RuntimeError("seed server %d died" % seed)
    out = json.loads(line)
    if "raised" in out:
        class _E(Exception):
            pass

        ex = _E(out["raised"])
        r = Raised(ex)
        r.kind = out["raised"]
        return r
    return out["result"]


def seed_server():
    import sys

    P = _R()
    for line in sys.stdin:
        req = json.loads(line)
        try:
            res = SET_KERNELS[req["kind"]](P, *req["args"])
            sys.stdout.write(json.dumps({"result": res}) + "\n")
        except Exception as ex:  # noqa
            sys.stdout.write(json.dumps({"raised": type(ex).__name__}) + "\n")
        sys.stdout.flush()


def mk_set_order(kind, n, mode, lens=None):
    return SetOrder(kind, n, mode, lens)


# ------------------------------------------------------------------ K7: id()-derived names never reach a result
def k_id_names(P, s, t, third):
    """schemas A<s> {<t>: string, zz: [string]} and <third> {x: string}; when <third> equals the context name the parser
    derives for property <t> of A<s>, the parser falls back to a name built from id().  Returns every name of the result."""
    ext = import_module(P.__name__ + ".core.loader.schemas.extractor")
    inst = P.__name__.startswith("sxi_")
    D = hook.SDict if inst else dict
    parent = "A" + s
    raw = D()
    raw[third] = D(type="object", properties=D(x=D(type="string")))
    props = D()
    props[t] = D(type="string")
    props["zz"] = D(type="array", items=D(type="string"))
    raw[parent] = D(type="object", properties=props)
    if len(raw) != 2:
        return None
    ctx = ext.build_schemas(raw, D(schemas=raw))
    out = []
    for k, v in ctx.parsed_schemas.items():
        out.append(("schema", k, v.name))
        for pk, pv in (v.properties or {}).items():
            out.append(("prop", pk, pv.name, pv.type, pv.items.name if pv.items is not None else None))
    return out


class IdNames(Obligation):
    functions = ["pyopenapi_gen.core.parsing.schema_parser:_parse_properties", "pyopenapi_gen.core.parsing.schema_parser:_parse_schema", "pyopenapi_gen.core.loader.schemas.extractor:build_schemas"]
    alphabet = ranges_of_pts([ord(c) for c in "abAB"])

    def __init__(self):
        self.name = "id_derived_names"
        self.bounds = {"names": "parent A<s>, property <t>, third schema A<u><v>: s, t, u, v one symbolic character each over 'abAB'", "id()": "a fresh symbolic integer 1..99999 per run; two runs compared"}

    def make_inputs(self, e):
        from symx.core import mk_sym_int

        return {"s": mk_sym_str(1, "s", self.alphabet), "t": mk_sym_str(1, "t", self.alphabet), "u": mk_sym_str(1, "u", self.alphabet), "v": mk_sym_str(1, "v", self.alphabet),
                "id1": mk_sym_int("id1", 1, 99999), "id2": mk_sym_int("id2", 1, 99999)}

    def run_sym(self, inp):
        P = _I()
        third = "A" + inp["u"] + inp["v"]
        outs = []
        for which in ("id1", "id2"):
            saved = hook.ENV.get("id")
            hook.ENV["id"] = lambda obj, w=which: inp[w]
            try:
                outs.append(call_catching(k_id_names, P, inp["s"], inp["t"], third))
            finally:
                if saved is None:
                    hook.ENV.pop("id", None)
                else:
                    hook.ENV["id"] = saved
        return tuple(outs)

    def run_real(self, inp):
        r = call_catching(k_id_names, _R(), inp["s"], inp["t"], "A" + inp["u"] + inp["v"])
        return (r, r)

    def normalise(self, r):
        def n(x):
            if isinstance(x, (list, tuple)):
                return [n(y) for y in x]
            return _simp(x)

        return n(r[0]) if not isinstance(r[0], Raised) else r[0]

    def prop(self, inp, r):
        a, b = r
        if a is None or b is None:
            return a is None and b is None
        if isinstance(a, Raised) or isinstance(b, Raised):
            return isinstance(a, Raised) and isinstance(b, Raised)

        def eq(x, y):
            if isinstance(x, (list, tuple)) and isinstance(y, (list, tuple)):
                return len(x) == len(y) and all(eq(p, q) for p, q in zip(x, y))
            if x is None or y is None:
                return x is y
            return len(x) == len(y) and bool(x == y)

        return eq(a, b)

    def describe_violation(self, inp, r):
        return "schemas A%s{%s, zz} and A%s%s: the result names depend on id(): %r vs %r" % (_simp(inp["s"]), _simp(inp["t"]), _simp(inp["u"]), _simp(inp["v"]), self.normalise((r[0],)), self.normalise((r[1],)))


def mk_id_names():
    return IdNames()


# ------------------------------------------------------------------ driver
def specs(tier):
    q = tier == "quick"
    out = []
    for lo, ln in ([(1, 1), (1, 2), (2, 1), (2, 2)] if q else [(1, 1), (1, 2), (2, 1), (2, 2), (2, 3), (3, 2), (3, 3)]):
        out.append((MOD, "mk_diff", (1, lo, ln)))
    out.append((MOD, "mk_diff", (2, 1, 1)))
    for kinds in ([("std", "std", "std"), ("std", "rel", "plain"), ("rel", "rel", "cond"), ("plain", "plain", "cond")] if q else
                  [("std", "std", "std"), ("std", "rel", "plain"), ("rel", "rel", "cond"), ("plain", "plain", "cond"), ("std", "std", "rel", "rel"), ("cond", "cond", "std", "plain")]):
        for mode in ("formatted", "statements"):
            out.append((MOD, "mk_imports", (kinds, 1, mode)))
    if not q:
        out.append((MOD, "mk_imports", (("std", "std", "std"), 2, "formatted")))
        out.append((MOD, "mk_imports", (("rel", "rel", "cond"), 2, "formatted")))
    out.append((MOD, "mk_models_init", (3, 1)))
    if not q:
        out.append((MOD, "mk_models_init", (3, 2)))
    from props import c09h

    out.extend(c09h.specs(tier, "c09"))
    out.append((MOD, "mk_id_names", ()))
    for kind in ("path_params", "op_tags"):
        out.append((MOD, "mk_set_order", (kind, 2, "reverse")))
        out.append((MOD, "mk_set_order", (kind, 3, "reverse" if q else "bits")))
    out.append((MOD, "mk_set_order", ("endpoint_text", 2, "reverse" if q else "bits")))
    # names one of which may be a prefix of the other, the longer placeholder first (`/{ab}/{a}`)
    out.append((MOD, "mk_set_order", ("path_params", 2, "reverse", (2, 1))))
    out.append((MOD, "mk_set_order", ("tag_spelling", 2, "reverse", (2, 2))))
    if not q:
        out.append((MOD, "mk_set_order", ("path_params", 3, "bits", (2, 1, 2))))
        out.append((MOD, "mk_set_order", ("endpoint_text", 2, "bits", (2, 1))))
    # "when the existing output differs from what would be generated now, the non-force run fails": the generate()
    # histories of props/c10.py (tampered trees, prefix-named sibling cores)
    from props import c10

    for olen, clen in ([(1, 0), (1, 2)] if q else [(1, 0), (1, 2), (2, 1), (3, 0)]):
        out.append(("props.c10", "mk_history", (olen, clen)))
    return out


def run(tier, rep, only=None):
    sp = specs(tier)
    if only:
        sp = [s for s in sp if only in explore.build(s).name]
    rep.bounds = {"diff texts": "<=2 quick / <=3 thorough characters per file, 1-2 files", "import registrations": "3-4 per file, all orders",
                  "schemas in models/__init__": "3-4, all orders"}
    rep.stubs = ["pathlib.Path in client_generator -> in-memory tree (K1; the real run uses real temporary files)",
                 "difflib.unified_diff -> contract model: no output iff the line lists are equal (K1, checked on every path witness)"]
    rep.assumptions = ["set/dict iteration order of the real code is represented by registration order of insertion-ordered containers",
                       "byte equality of whole trees across processes / hash seeds / clocks is not decided"]
    res = explore.run_all(sp, log=lambda m: print("[c09]", m, flush=True))
    for spec in sp:
        ob = explore.build(spec)
        rep.add_symx(res[ob.name], functions=ob.functions, bounds=ob.bounds)


def replay(path):
    v = json.load(open(path))["violation"]
    name = v["obligation"]
    if name.startswith("history/"):
        from props import c10

        return c10.replay(path)
    if name.startswith("shared_core_history"):
        from props import c09h

        ob, inp = c09h.replay_ob(v)
        r = ob.run_real(inp)
        why = ob.verdict(inp, r, ob.which)
        print("replay %s inputs=%r -> %s" % (name, inp, "holds" if why is None else why))
        return 0 if why is None else 1
    ob = None
    for spec in specs("thorough") + specs("quick"):
        o = explore.build(spec)
        if o.name == name:
            ob = o
            break
    if ob is None:
        print("unknown obligation", name)
        return 3
    inp = v["inputs"]
    r = ob.run_real(inp)
    ok = bool(ob.prop(inp, r))
    print("replay %s inputs=%r -> holds=%s :: %s" % (name, inp, ok, "" if ok else ob.describe_violation(inp, r)[:1200]))
    return 0 if ok else 1
