"""C12 — Generated clients are self-contained (engine E1 / symx; import-rendering and copy kernels, partial).

K1 import scan with a symbolic core package name.  Every module kind the generator can emit from the template sites of
    props/c15.py (dataclass, enum, alias, discriminated union with its lazy get_mapping, the three JSON wrapper classes,
    endpoint client + Protocol, mock, APIClient) and the operation shapes of props/c13sig.py is rendered by the REAL
    visitors with a core package whose dotted name is a SYMBOLIC string (it reaches the text through
    RenderContext.add_import / ImportCollector / hand-written templates).  The rendered text is read by the reference
    lexer and EVERY import statement - top level, nested in functions, under TYPE_CHECKING - is extracted.
    P: each imported module is relative, or belongs to the standard library / httpx / cattrs, or lies in the designated
    core package (z3 decides the equality of its leading components with the symbolic core name).  In particular no
    statement names the generator.
K2 copy step.  Real CoreEmitter.emit with the core directory name symbolic and file I/O on the in-memory file system:
    every runtime module of RUNTIME_FILES arrives below the core directory under its relative name with exactly the bytes
    of the module shipped with the generator (read from /repo at run time), and the generated core/__init__ imports only
    relatively.
Guard (concrete, not solver-decided, reported as such): the shipped runtime modules themselves import nothing but the
standard library, httpx, cattrs and each other.
"""
from __future__ import annotations

import ast
import json
import os
import sys
from importlib import import_module

import memfs
import pysig
from common import SRC
from props import c13sig, c15
from symx import explore, hook
from symx.core import SymStr, is_sym, mk_sym_str, ranges_of_pts, s_not
from symx.explore import Obligation, Raised, call_catching

hook.install()
MOD = "props.c12"
PKG = ranges_of_pts([ord(c) for c in "kq."])
SEG = ranges_of_pts([ord(c) for c in "kq"])
ALLOWED_TOP = set(sys.stdlib_module_names) | {"httpx", "cattrs", "attrs", "typing_extensions"}


def _I():
    return c15._I()


def _R():
    return c15._R()


def _simp(x):
    return x.simp() if is_sym(x) else x


# ------------------------------------------------------------------ import extraction on token level
def import_statements(text):
    """-> (list of (level, [module components as char tuples])) for every import statement of the text, or (None, error)"""
    toks, err = pysig.tokens(text)
    if toks is None:
        return None, err
    out = []
    i, n = 0, len(toks)
    while i < n:
        t = toks[i]
        if t.is_kw("from"):
            j = i + 1
            level = 0
            while j < n and toks[j].is_op("."):
                level += 1
                j += 1
            comps = []
            while j < n and toks[j].kind in ("NAME", "KW") and not toks[j].is_kw("import"):
                comps.append(toks[j].text if toks[j].kind == "NAME" else tuple(ord(c) for c in toks[j].text))
                j += 1
                if j < n and toks[j].is_op("."):
                    j += 1
            if j < n and toks[j].is_kw("import"):
                out.append((level, comps))
            i = j + 1
            continue
        if t.is_kw("import"):
            j = i + 1
            while True:
                comps = []
                while j < n and toks[j].kind == "NAME":
                    comps.append(toks[j].text)
                    j += 1
                    if j < n and toks[j].is_op("."):
                        j += 1
                    else:
                        break
                out.append((0, comps))
                if j < n and toks[j].is_kw("as"):
                    j += 2
                if j < n and toks[j].is_op(","):
                    j += 1
                    continue
                break
            i = j
            continue
        i += 1
    return out, None


def allowed(stmt, core_parts, out_parts=None):
    """-> True / False / SymBool"""
    if out_parts:
        a = allowed(stmt, core_parts)
        if a is True:
            return True
        b = allowed(stmt, out_parts)  # an absolute import inside the emitted package itself
        if a is False:
            return b
        if b is False:
            return a
        if b is True:
            return True
        from symx.core import s_or

        return s_or(a, b)
    level, comps = stmt
    if level > 0:
        return True  # resolved by relative_ok() where the importing file's place in the package is known
    if not comps:
        return False
    first = comps[0]
    if all(isinstance(c, int) for c in first) and "".join(chr(c) for c in first) in ALLOWED_TOP:
        return True
    # inside the designated core package?
    if len(comps) < len(core_parts):
        return False
    conj = []
    for c, want in zip(comps, core_parts):
        w = SymStr.lift(want) if not is_sym(want) else want
        if len(c) != len(w):
            return False
        r = SymStr(c).eq_expr(w)
        if r is False:
            return False
        if r is not True:
            conj.append(r)
    if not conj:
        return True
    from symx.core import s_and, sb

    return s_and(*[sb(x) for x in conj])


def relative_ok(level, here, top):
    """a relative import of `level` dots in a module whose package is `here` (components from the import root) stays inside
    the emitted package `top` (a prefix of `here`): Python refuses to climb above the top-level package, and anything
    between the import root and the emitted package is not the emitted package"""
    return level <= len(here) and len(here) - (level - 1) >= len(top)


def verdict_texts(texts, core, out=None, rels=None, top=("pkg",)):
    core_parts = [_simp(p) for p in core.split(".")]
    out_parts = [_simp(p) for p in out.split(".")] if out is not None else None
    from symx.core import s_and

    cond = True
    for k, t in enumerate(texts):
        stmts, err = import_statements(t)
        if stmts is None:
            return False, "does not lex: %s" % err
        here = (list(top) + rels[k].split("/")[:-1]) if rels and len(rels) == len(texts) else None
        for st in stmts:
            if st[0] > 0 and here is not None and not relative_ok(st[0], here, top):
                return False, "relative import `from %s%s` in %s climbs out of the emitted package %s" % ("." * st[0], ".".join(pysig.show(c) for c in st[1]), rels[k], ".".join(top))
            a = allowed(st, core_parts, out_parts)
            if a is False:
                return False, "import of %r" % (".".join(pysig.show(c) for c in st[1]),)
            if a is not True:
                cond = a if cond is True else s_and(cond, a)
    return cond, "an imported module is outside the core package for some core package name"


# ------------------------------------------------------------------ K1
_CALC = {}


def _model_relative_path(P):
    """calculate_relative_path_for_internal_module for a SYMBOLIC target module: path arithmetic on components (the real
    function asks os.path; nothing of the target exists on disk, so it treats the target as a module file)"""
    if P.__name__ in _CALC or not P.__name__.startswith("sxi_"):
        return
    c15._patch(P)  # installs c15's own stub first; ours replaces it
    rc = import_module(P.__name__ + ".context.render_context")
    real = rc.RenderContext.calculate_relative_path_for_internal_module

    def calc(self, target):
        if not (is_sym(target) and not target.is_concrete()):
            try:
                return real(self, target.concrete() if is_sym(target) else target)
            except hook.Unsupported:
                raise
        root = memfs.parse(self.package_root_for_generated_code)
        cur = memfs.parse(self.current_file)
        tparts = tuple(root) + tuple(_simp(x) for x in target.split("."))
        if memfs.peq(tparts[:-1] + (tparts[-1] + ".py",), cur):
            return None
        rel = memfs.relpath_parts(tparts, cur[:-1])
        level = 0
        while level < len(rel) and isinstance(rel[level], str) and rel[level] == "..":
            level += 1
        rest = [x for x in rel[level:] if not (isinstance(x, str) and x == ".")]
        out = "." * (level + 1)
        for i, x in enumerate(rest):
            out = out + ("." if i else "") + x
        return out

    rc.RenderContext.calculate_relative_path_for_internal_module = calc
    real_core = rc.RenderContext._calculate_relative_core_path

    def core_calc(self, submodule):
        """_calculate_relative_core_path for a SYMBOLIC core package name (the real one goes through pathlib and swallows
        every exception, including the engine's, into its absolute-import fallback)"""
        core = self.core_package_name
        if not (is_sym(core) and not core.is_concrete()):
            return real_core(self, submodule)
        if not self.current_file or not self.package_root_for_generated_code or not self.overall_project_root:
            return real_core(self, submodule)
        cur = memfs.parse(self.current_file)
        tparts = tuple(memfs.parse(self.overall_project_root)) + (_simp(core),) + tuple(submodule.split("."))
        rel = memfs.relpath_parts(tparts, cur[:-1])
        dots, parts = 0, []
        for x in rel:
            if isinstance(x, str) and x == "..":
                dots += 1
            elif not (isinstance(x, str) and x == "."):
                parts.append(x)
        out = "." * (dots + 1)
        for i, x in enumerate(parts):
            out = out + ("." if i else "") + x
        return out

    rc.RenderContext._calculate_relative_core_path = core_calc
    _CALC[P.__name__] = True


def _render_site(P, site, core, out=None):
    _model_relative_path(P)
    kernel = c15.SITES[site][0]
    rc = import_module(P.__name__ + ".context.render_context")
    saved = c15._ctx

    rels = []

    def ctx(P2, rel):
        c = rc.RenderContext(core_package_name=core, package_root_for_generated_code="/tmp/x/pkg", overall_project_root="/tmp/x", output_package_name=out)
        c.set_current_file("/tmp/x/pkg/" + rel)
        rels.append(rel)
        return c

    c15._ctx = ctx
    try:
        return kernel(P, c15.marker(3))
    finally:
        c15._ctx = saved
        RELS[site] = list(rels)


RELS = {}
SHAPE_RELS = ["endpoints/things.py", "mocks/endpoints/mock_things.py"]


def _render_shape(P, body, resp, core, out=None, nested=False):
    _model_relative_path(P)
    rc = import_module(P.__name__ + ".context.render_context")
    real = rc.RenderContext

    class RC(real):
        def __init__(self, **kw):
            kw["core_package_name"] = core
            if out is not None:
                kw["output_package_name"] = out
            if nested:
                # the client is the nested package x.pkg: the project root lies two directories above its files
                kw["overall_project_root"] = "/tmp"
                kw["output_package_name"] = "x.pkg"
            real.__init__(self, **kw)

    ee = import_module(P.__name__ + ".emitters.endpoints_emitter")
    saved = rc.RenderContext
    rc.RenderContext = RC
    try:
        return list(c13sig.k_emit(P, [dict(opid="do_it", params=[("flt", "query", False, "enum_ref")], body=body, resp=resp, second="err404")]))
    finally:
        rc.RenderContext = saved


class ImportScan(Obligation):
    alphabet = PKG
    timeout_ms = 30000

    def __init__(self, kind, what, n, with_out=False, nested=False):
        self.kind, self.what, self.n, self.with_out, self.nested = kind, what, n, with_out, nested
        self.name = "import_scan/%s/%s/core_len=%d%s%s" % (kind, what, n, "/nested_output_package" if with_out else "", "/nested_layout" if nested else "")
        self.functions = (c15.SITES[what][3] if kind == "site" else c13sig.SigParity.functions) + [
            "pyopenapi_gen.context.render_context:RenderContext.add_import", "pyopenapi_gen.context.import_collector:ImportCollector.get_formatted_imports"]
        self.bounds = {"module": what, "core_package_name": "symbolic dotted name, %d characters over 'k q .'" % n}

    def make_inputs(self, e):
        # dots are concrete (the reference lexer reads operators only from concrete characters), segments symbolic
        pats = {1: [(1,)], 2: [(2,)], 3: [(3,), (1, 1)], 4: [(4,), (1, 2), (2, 1)]}[self.n]
        pat = pats[e.choose(len(pats), "segments")]
        core = None
        for i, k in enumerate(pat):
            seg = mk_sym_str(k, "seg%d" % i, SEG)
            core = seg if core is None else core + "." + seg
        inp = {"core": core}
        if self.with_out:
            # the client is emitted as a nested package <a>.<b> (absolute-import mode knows its dotted name)
            inp["out"] = mk_sym_str(1, "outa", SEG) + "." + mk_sym_str(1, "outb", SEG)
        return inp

    def _run(self, P, inp):
        if self.kind == "site":
            return call_catching(_render_site, P, self.what, inp["core"], inp.get("out"))
        body, resp = self.what.split("+")
        return call_catching(_render_shape, P, body, resp, inp["core"], inp.get("out"), self.nested)

    def run_sym(self, inp):
        return self._run(_I(), inp)

    def run_real(self, inp):
        return self._run(_R(), inp)

    def normalise(self, r):
        return [_simp(x) for x in r] if isinstance(r, list) else r

    def prop(self, inp, r):
        if isinstance(r, Raised) or r is None:
            return True
        return self._verdict(inp, r)[0]

    def _verdict(self, inp, r):
        if self.kind == "site":
            return verdict_texts(r, inp["core"], inp.get("out"), RELS.get(self.what))
        return verdict_texts(r, inp["core"], "x.pkg" if self.nested else inp.get("out"), SHAPE_RELS, ("x", "pkg") if self.nested else ("pkg",))

    def describe_violation(self, inp, r):
        if isinstance(r, Raised) or r is None:
            return "rendering raised"
        return "core package %r%s, module %s: %s" % (_simp(inp["core"]), (", output package %r" % _simp(inp["out"])) if inp.get("out") is not None else "", self.what,
                                                     self._verdict(inp, r)[1])


def mk_scan(kind, what, n, with_out=False, nested=False):
    return ImportScan(kind, what, n, with_out, nested)


# ------------------------------------------------------------------ K2
STALE_KINDS = ["absent", "empty", "prefix", "extended", "edited"]
STALE_FILES = ["streaming_helpers.py", "utils.py", "auth/base.py"]


def _stale(kind, text):
    lines = text.split("\n")
    if kind == "empty":
        return ""
    if kind == "prefix":
        return "\n".join(lines[:max(1, len(lines) // 2)]) + "\n"
    if kind == "extended":
        return text + "\nLEFT_OVER = 1\n"
    if kind == "edited":
        return "\n".join(lines[:3] + ["EDITED = 1"] + lines[3:])
    return None


def k_copy(P, core_rel, stale_kind="absent", stale_file=None):
    ce = import_module(P.__name__ + ".emitters.core_emitter")
    fs = memfs.MemFS()
    fs.mkdir(("out",))
    if stale_kind != "absent" and stale_file:
        # an earlier generation (or a half-finished one) left a different version of a runtime module behind
        parts = ("out",) + tuple(memfs.parse(core_rel)) + tuple(stale_file.split("/"))
        fs.mkdir(parts[:-1], parents=True, exist_ok=True)
        fs.write(parts, _stale(stale_kind, open(os.path.join(SRC, "core", *stale_file.split("/")), encoding="utf-8").read()))

    class FM:
        def write_file(self, path, content):
            parts = memfs.parse(path)
            fs.mkdir(parts[:-1], parents=True, exist_ok=True)
            fs.write(parts, content)

        def ensure_dir(self, path):
            fs.mkdir(memfs.parse(path), parents=True, exist_ok=True)

    saved = (ce.os, ce.__dict__.get("open"))
    ce.os = memfs.Os(fs)
    ce.os.path.basename = lambda p: memfs.parse(p)[-1] if memfs.parse(p) else ""

    def mem_open(path, mode="r", *a, **k):  # an emitter that looks at what is already there reads the in-memory tree
        class F:
            def __enter__(s_):
                return s_

            def read(s_):
                return fs.read(memfs.parse(path))

            def write(s_, t):
                parts = memfs.parse(path)
                fs.mkdir(parts[:-1], parents=True, exist_ok=True)
                fs.write(parts, t)

            def __exit__(s_, *exc):
                return False

            def __iter__(s_):
                return iter(fs.read(memfs.parse(path)).splitlines(True))

        return F()

    ce.__dict__["open"] = mem_open
    try:
        em = ce.CoreEmitter(core_dir=core_rel, core_package="x.core", exception_alias_names=["NotFoundError"])
        em.file_manager = FM()
        files = em.emit("/out")
    finally:
        ce.os = saved[0]
        if saved[1] is None:
            ce.__dict__.pop("open", None)
        else:
            ce.__dict__["open"] = saved[1]
    core_parts = ("out",) + tuple(memfs.parse(core_rel))
    got = {}
    for e in fs.under(core_parts):
        if e[1] == "file":
            got["/".join(str(_simp(c)) if not is_sym(_simp(c)) else "?" for c in e[0][len(core_parts):])] = e[2]
    outside = [memfs.text_of(e[0]) for e in fs.under(("out",)) if not memfs.pstarts(e[0], core_parts) and not memfs.pstarts(core_parts, e[0])]
    return (got, outside, len(files))


def shipped(rels):
    """relative name below core/ -> text of the same-named runtime module shipped with the generator (read from /repo now).
    Independent of the emitter's own RUNTIME_FILES table: the counterpart of core/<rel> is src/pyopenapi_gen/core/<rel>."""
    out = {}
    for rel in rels:
        p = os.path.join(SRC, "core", *rel.split("/"))
        if rel.endswith(".py") and not rel.endswith("__init__.py") and os.path.isfile(p):
            out[rel] = open(p, encoding="utf-8").read()
    return out


_REQ = {}


def required_core_modules():
    """core submodules that generated code imports (collected from the uninstrumented rendering of every site / shape)"""
    if "r" not in _REQ:
        P = _R()
        req = set()
        texts = []
        for site in c15.SITES:
            r = call_catching(_render_site, P, site, "core")
            if isinstance(r, list):
                texts.extend(r)
        for sh in SHAPES:
            body, resp = sh.split("+")
            r = call_catching(_render_shape, P, body, resp, "core")
            if isinstance(r, list):
                texts.extend(r)
        for t in texts:
            stmts, _ = import_statements(t)
            for level, comps in stmts or []:
                names = [pysig.show(c) for c in comps]
                if level == 0 and names[:1] == ["core"] and len(names) > 1:
                    req.add("/".join(names[1:]))
        _REQ["r"] = sorted(req)
    return _REQ["r"]


GENERATED_IN_CORE = {"exception_aliases", "config"}  # written by ExceptionsEmitter / from a template, not copied


class CopyStep(Obligation):
    functions = ["pyopenapi_gen.emitters.core_emitter:CoreEmitter.emit"]
    alphabet = ranges_of_pts([ord(c) for c in "kq"])

    def __init__(self, depth, n):
        self.depth, self.n = depth, n
        self.name = "copy_step/depth=%d/len=%d" % (depth, n)
        self.bounds = {"core directory": "%d component(s), the last one symbolic with %d characters over 'k q'" % (depth, n),
                       "state before": "one of %r absent / empty / a line-prefix / extended / edited version of the shipped module" % (STALE_FILES,)}

    def make_inputs(self, e):
        return {"name": mk_sym_str(self.n, "name", self.alphabet), "stale": STALE_KINDS[e.choose(len(STALE_KINDS), "stale")],
                "stale_file": STALE_FILES[e.choose(len(STALE_FILES), "stale_file")]}

    def _rel(self, inp):
        return ("shared/" if self.depth == 2 else "") + inp["name"]

    def run_sym(self, inp):
        return call_catching(k_copy, _I(), self._rel(inp), inp["stale"], inp["stale_file"])

    def run_real(self, inp):
        return call_catching(k_copy, _R(), self._rel(inp), inp["stale"], inp["stale_file"])

    def normalise(self, r):
        if isinstance(r, tuple):
            return ({k: _simp(v) for k, v in r[0].items()}, [_simp(x) for x in r[1]], r[2])
        return r

    def verdict(self, inp, r):
        if isinstance(r, Raised):
            return "emit raised %s" % r.kind
        got, outside, n = r
        if outside:
            return "files written outside the core directory: %r" % ([_simp(x) for x in outside],)
        conc = {}
        for rel, text in got.items():
            t = _simp(text)
            if is_sym(t):
                return "content of %s depends on the directory name" % rel
            conc[rel] = t
        for rel, text in shipped(list(conc)).items():
            if conc[rel] != text:
                return "runtime module %s differs from the module shipped with the generator" % rel

        def present(mod):
            return (mod + ".py") in conc or (mod + "/__init__.py") in conc or mod.split("/")[0] in GENERATED_IN_CORE

        for mod in required_core_modules():
            if not present(mod):
                return "generated code imports core.%s, which the core package does not contain" % mod.replace("/", ".")
        # relative imports between the copied modules resolve inside the copy
        for rel, text in conc.items():
            if not rel.endswith(".py"):
                continue
            here = rel.split("/")[:-1]
            for node in ast.walk(ast.parse(text)):
                if isinstance(node, ast.ImportFrom) and node.level > 0:
                    base = here[:len(here) - (node.level - 1)] if node.level > 1 else here
                    targets = ["/".join(base + (node.module.split(".") if node.module else []))] if node.module else ["/".join(base + [a.name]) for a in node.names]
                    for tg in targets:
                        if tg and not present(tg) and not ("/".join(tg.split("/")[:-1]) and present("/".join(tg.split("/")[:-1]))):
                            return "%s imports .%s, which the core package does not contain" % (rel, tg.replace("/", "."))
        init = _simp(got.get("__init__.py"))
        if init is None or is_sym(init):
            return "core/__init__.py missing"
        for node in ast.walk(ast.parse(init)):
            if isinstance(node, ast.ImportFrom) and node.level == 0 and (node.module or "").split(".")[0] not in ALLOWED_TOP:
                return "core/__init__.py imports %s absolutely" % node.module
            if isinstance(node, ast.Import):
                for a in node.names:
                    if a.name.split(".")[0] not in ALLOWED_TOP:
                        return "core/__init__.py imports %s" % a.name
        return None

    def prop(self, inp, r):
        return self.verdict(inp, r) is None

    def describe_violation(self, inp, r):
        return "core directory %r (before: %s version of %s): %s" % (_simp(self._rel(inp)), inp["stale"], inp["stale_file"], self.verdict(inp, r))


def mk_copy(depth, n):
    return CopyStep(depth, n)


# ------------------------------------------------------------------ concrete guard
def runtime_import_guard():
    """imports of the shipped runtime modules outside stdlib / httpx / cattrs; an import that the module itself guards with
    `try: ... except ImportError` (an optional dependency such as black in the unused Formatter helper) is tolerated"""
    bad = []
    runtime = {}
    for d, _dirs, files in os.walk(os.path.join(SRC, "core")):
        reld = os.path.relpath(d, os.path.join(SRC, "core"))
        if reld.split(os.sep)[0] in ("parsing", "loader", "writers"):
            continue  # generator-side packages, never copied
        for f in files:
            if f.endswith(".py"):
                runtime[os.path.normpath(os.path.join(reld, f))] = open(os.path.join(d, f), encoding="utf-8").read()
    ce = import_module("pyopenapi_gen.emitters.core_emitter")
    copied = {rel_dst.replace("core/", "", 1) for _m, _f, rel_dst in ce.RUNTIME_FILES}
    for rel, text in runtime.items():
        if rel not in copied:
            continue
        tree = ast.parse(text)
        guarded = set()
        for node in ast.walk(tree):
            if isinstance(node, ast.Try) and any(
                    h.type is None or (isinstance(h.type, ast.Name) and h.type.id in ("ImportError", "ModuleNotFoundError", "Exception")) or
                    (isinstance(h.type, ast.Tuple) and any(isinstance(x, ast.Name) and x.id in ("ImportError", "ModuleNotFoundError") for x in h.type.elts))
                    for h in node.handlers):
                for st in node.body:
                    for sub in ast.walk(st):
                        guarded.add(id(sub))
        for node in ast.walk(tree):
            if id(node) in guarded:
                continue
            mods = []
            if isinstance(node, ast.ImportFrom) and node.level == 0:
                mods = [node.module or ""]
            elif isinstance(node, ast.Import):
                mods = [a.name for a in node.names]
            for m in mods:
                if m.split(".")[0] not in ALLOWED_TOP:
                    bad.append("%s imports %s" % (rel, m))
    return bad


SHAPES = ["none+json_a", "multi_a+sse", "json_list+bytes_stream", "form+none204", "octet+text", "multipart+json_list", "multi_form+primitive"]


def specs(tier):
    q = tier == "quick"
    out = []
    for site in c15.SITES:
        for n in ((1, 3) if q else (1, 2, 3, 4)):
            out.append((MOD, "mk_scan", ("site", site, n)))
    for sh in SHAPES:
        for n in ((1, 3) if q else (1, 3, 4)):
            out.append((MOD, "mk_scan", ("shape", sh, n)))
    # the client as nested package x.pkg, project root two directories up: relative imports must not climb out of it
    for sh in SHAPES[:2] if q else SHAPES:
        out.append((MOD, "mk_scan", ("shape", sh, 1, False, True)))
    # nested output package with a top-level core whose name may begin like the package's last segment
    for site in ("model.class_description", "model.json_wrapper_description", "endpoint.summary", "client.title"):
        out.append((MOD, "mk_scan", ("site", site, 2, True)))
    if not q:
        for site in c15.SITES:
            out.append((MOD, "mk_scan", ("site", site, 3, True)))
    out.append((MOD, "mk_copy", (1, 1)))
    out.append((MOD, "mk_copy", (2, 2)))
    return out


def run(tier, rep, only=None):
    sp = specs(tier)
    if only:
        sp = [s for s in sp if only in explore.build(s).name]
    rep.bounds = {"modules": "%d template sites of props/c15.py + %d operation shapes" % (len(c15.SITES), len(SHAPES)), "core package name": "symbolic dotted name up to 3 (quick) / 4 (thorough) characters over 'k q .'"}
    rep.stubs = ["Black -> identity", "file I/O of CoreEmitter -> lib/memfs.py"]
    rep.assumptions = ["module kinds outside the template sites are outside the claim", "the import run with the generator blocked (fresh interpreter) is not executed",
                       "guard (concrete): the shipped runtime modules import only stdlib / httpx / cattrs / each other"]
    bad = runtime_import_guard()
    for b in bad:
        rep.violations.append({"obligation": "runtime_import_guard", "inputs": {}, "detail": "shipped runtime module is not self-contained: " + b})
    res = explore.run_all(sp, log=lambda m: print("[c12]", m, flush=True))
    for spec in sp:
        ob = explore.build(spec)
        rep.add_symx(res[ob.name], functions=ob.functions, bounds=ob.bounds)


def replay(path):
    v = json.load(open(path))["violation"]
    name = v["obligation"]
    if name == "runtime_import_guard":
        bad = runtime_import_guard()
        print("replay runtime_import_guard ->", bad or "holds")
        return 1 if bad else 0
    ob = None
    for spec in specs("thorough"):
        o = explore.build(spec)
        if o.name == name:
            ob = o
    if ob is None:
        print("unknown obligation", name)
        return 3
    r = ob.run_real(v["inputs"])
    ok = bool(ob.prop(v["inputs"], r))
    print("replay %s inputs=%r -> holds=%s %s" % (name, v["inputs"], ok, "" if ok else ob.describe_violation(v["inputs"], r)))
    return 0 if ok else 1
