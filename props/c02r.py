"""C02, rendering half — the dataclass written for an object schema has exactly one field per declared property, bound to the
property's original JSON key, required exactly when the spec says so, typed with the declared structural kind (symx).

Kernel: the REAL ModelVisitor / DataclassGenerator / PythonConstructRenderer.render_dataclass on an object schema with
three properties: the middle one has a SYMBOLIC name (it sorts before, between or after its siblings `aa` / `zz`, needs
sanitising, may collide with them after sanitising), a solver-chosen type and a symbolic required flag; the siblings'
type and required-ness are solver-chosen too.  The rendered module (symbolic text) is lexed and the dataclass body read on
token level (lib/pysig.dataclass_view).
P: three fields; Meta.key_transform_with_load maps exactly the three wire keys, one to each field, and
key_transform_with_dump is its inverse; the field bound to each key has no default iff the property is required, its
annotation admits None iff it is not required, and names the declared kind.
"""
from __future__ import annotations

import json

import pysig
from props import c01
from symx import explore, hook
from symx.core import SymStr, is_sym, mk_sym_str, ranges_of_pts
from symx.explore import Obligation, Raised, call_catching

hook.install()
MOD = "props.c02r"
ALPHA = ranges_of_pts([ord(c) for c in "aAzZ-_1"])
KIND_TOKEN = {"string": ["str"], "integer": ["int"], "date": ["date"], "datetime": ["datetime"], "uuid": ["UUID"], "array": ["List", "str"], "enum_ref": ["Color"],
              "model_ref": ["Other"], "map": ["dict"], "map_default": ["dict"], "ref_default": ["Other"]}


def k_render(P, pname, ptype, required, sibling_type, sib_required, last="zz"):
    thing, color, other = c01._schemas(P, pname, ptype, required, sibling_type)
    if last != "zz":
        # the third property is named like the de-collision suffix of the first one and is required (rendered first)
        props = thing.properties
        moved = props.pop("zz")
        props[last] = moved
        thing.required = list(thing.required) + [last]
    if len(thing.properties) != 3:
        return None
    if sib_required:
        thing.required = list(thing.required) + ["aa"] + (["zz"] if last == "zz" else [])
    from props import c15

    return c15._model(P, thing, extra=[color, other])[0]


def _eq(a, b):
    """char tuples / str -> bool (forks)"""
    a = SymStr(a) if isinstance(a, tuple) else SymStr.lift(a)
    b = SymStr(b) if isinstance(b, tuple) else SymStr.lift(b)
    return len(a) == len(b) and bool(a == b)


class RenderFidelity(Obligation):
    functions = ["pyopenapi_gen.visit.model.dataclass_generator:DataclassGenerator.generate", "pyopenapi_gen.core.writers.python_construct_renderer:PythonConstructRenderer.render_dataclass",
                 "pyopenapi_gen.visit.model.model_visitor:ModelVisitor.visit_IRSchema", "pyopenapi_gen.core.utils:NameSanitizer.sanitize_method_name"]
    alphabet = ALPHA
    timeout_ms = 30000

    # names of the OTHER schemas of the document (and near misses): a property called like a schema is still what it declares
    SCHEMA_LIKE = ["Color", "Other", "color", "other", "Thing", "COLOR"]

    def __init__(self, n, ptypes, last="zz"):
        self.n, self.ptypes, self.last = n, list(ptypes), last
        self.name = "render_fidelity/name_len=%d/types=%s%s" % (n, "+".join(self.ptypes), "" if last == "zz" else "/last=" + last)
        self.bounds = {"property_name": ("symbolic, %d characters over 'aAzZ-_1'" % n) if n else "one of %r (the document's other schema names and near misses)" % (self.SCHEMA_LIKE,),
                       "property_type": self.ptypes, "sibling_type": ["string", "array"], "required": "solver-chosen for the property and for the siblings"}

    def make_inputs(self, e):
        return {"pname": mk_sym_str(self.n, "pname", ALPHA) if self.n else self.SCHEMA_LIKE[e.choose(len(self.SCHEMA_LIKE), "token")], "ptype": self.ptypes[e.choose(len(self.ptypes), "ptype")], "required": bool(e.choose(2, "required")),
                "sibling": ["string", "array"][e.choose(2, "sibling")], "sib_required": bool(e.choose(2, "sib_required"))}

    def _args(self, inp):
        return (inp["pname"], inp["ptype"], inp["required"], inp["sibling"], inp["sib_required"], self.last)

    def run_sym(self, inp):
        return call_catching(k_render, c01._I(), *self._args(inp))

    def run_real(self, inp):
        return call_catching(k_render, c01._R(), *self._args(inp))

    def normalise(self, r):
        return r.simp() if is_sym(r) else r

    def verdict(self, inp, r):
        if r is None or isinstance(r, Raised):
            return None
        view, err = pysig.dataclass_view(r, "Thing")
        if view is None:
            return err
        fields, meta = view["fields"], view["meta"]
        if len(fields) != 3:
            return "%d fields for 3 properties: %r" % (len(fields), fields)
        load, dump = meta.get("key_transform_with_load"), meta.get("key_transform_with_dump")
        want = [(inp["pname"], inp["ptype"], inp["required"]), ("aa", inp["sibling"], inp["sib_required"]),
                (self.last, inp["sibling"], inp["sib_required"] if self.last == "zz" else True)]
        if load is None:
            load = [(f.name, f.name) for f in fields]
            dump = list(load)
        if len(load) != 3 or dump is None or len(dump) != 3:
            return "key maps have %r / %r entries" % (len(load), None if dump is None else len(dump))
        used = []
        for key, kind, req in want:
            hit = [v for k, v in load if _eq(k, key)]
            if len(hit) != 1:
                return "wire key %r is mapped %d times by key_transform_with_load" % (key if not is_sym(key) else key.simp(), len(hit))
            fname = hit[0]
            back = [v for k, v in dump if _eq(k, fname)]
            if len(back) != 1 or not _eq(back[0], key):
                return "key_transform_with_dump does not map the field of %r back to it" % (key if not is_sym(key) else key.simp(),)
            fld = [f for f in fields if _eq(f.name, fname)]
            if len(fld) != 1:
                return "the field %r named by the key map exists %d times" % (pysig.show(fname), len(fld))
            f = fld[0]
            if any(f is u for u in used):
                return "two wire keys share one field"
            used.append(f)
            names = [pysig.show(t.text) for t in f.annotation if t.kind in ("NAME", "KW")]
            if (f.default is None) != bool(req):
                return "property %r required=%s but the field is rendered %r" % (key if not is_sym(key) else key.simp(), req, f)
            if ("None" in names or "Optional" in names) == bool(req):
                return "property %r required=%s but the annotation is %r" % (key if not is_sym(key) else key.simp(), req, names)
            for tok in KIND_TOKEN[kind]:
                if tok not in names and tok.capitalize() not in names and tok.lower() not in names:
                    return "property %r of kind %s is annotated %r" % (key if not is_sym(key) else key.simp(), kind, names)
        return None

    def prop(self, inp, r):
        return self.verdict(inp, r) is None

    def describe_violation(self, inp, r):
        return "property %r (%s, required=%s) next to aa/zz (%s, required=%s): %s" % (
            inp["pname"].simp() if is_sym(inp["pname"]) else inp["pname"], inp["ptype"], inp["required"], inp["sibling"], inp["sib_required"], self.verdict(inp, r))


def mk(n, ptypes, last="zz"):
    return RenderFidelity(n, ptypes, last)


def specs(tier):
    if tier == "quick":
        return [(MOD, "mk", (0, ("string", "integer", "array", "date"))), (MOD, "mk", (1, tuple(c01.PTYPES) + ("map_default", "ref_default"))), (MOD, "mk", (2, ("string", "array", "model_ref"))), (MOD, "mk", (2, ("string", "integer"), "aa_2"))]
    return [(MOD, "mk", (0, tuple(c01.PTYPES))), (MOD, "mk", (1, tuple(c01.PTYPES) + ("map_default", "ref_default"))), (MOD, "mk", (2, tuple(c01.PTYPES))), (MOD, "mk", (3, ("string", "array"))), (MOD, "mk", (2, ("string", "integer"), "aa_2")),
            (MOD, "mk", (3, ("string",), "aa_2"))]


def replay_ob(v):
    parts = v["obligation"].split("/")
    return RenderFidelity(int(parts[1].split("=")[1]), parts[2].split("=")[1].split("+"), parts[3].split("=")[1] if len(parts) > 3 else "zz")
