"""C16 — Bundled converter obeys round-trip laws for any mapped dataclass (engine E2 / CrossHair).

harness/h_c16.py holds the PEP-316 conditions; this module runs every condition (and its reachability twin) under
CrossHair, one process per condition, for several warm-up histories of the global converter (VERIF_WARM), replays
every counterexample natively and maps verdicts (confirmed / violation / inconclusive)."""
from __future__ import annotations

import json
import os

import xh
from common import VERIF

HARNESS = os.path.join(VERIF, "harness", "h_c16.py")
FUNCS = [
    "pyopenapi_gen.core.cattrs_converter:structure_from_dict", "pyopenapi_gen.core.cattrs_converter:unstructure_to_dict",
    "pyopenapi_gen.core.cattrs_converter:_make_dataclass_structure_fn", "pyopenapi_gen.core.cattrs_converter:_make_dataclass_unstructure_fn",
    "pyopenapi_gen.core.cattrs_converter:_register_structure_hooks_recursively", "pyopenapi_gen.core.cattrs_converter:_register_unstructure_hooks_recursively",
    "pyopenapi_gen.core.cattrs_converter:_extract_errors", "pyopenapi_gen.core.utils:DataclassSerializer._serialize_with_tracking",
    "pyopenapi_gen.core.utils:DataclassSerializer._ensure_all_dicts", "pyopenapi_gen.core.utils:DataclassSerializer._remove_none_values",
]


def run_harness(rep, harness, tier, histories, only=None, env_extra=None, timeout=None):
    funcs = [f for f in xh._func_lines(harness) if f.startswith(("ob_", "kf_"))]
    if only:
        funcs = [f for f in funcs if only in f]
    timeout = timeout or (60 if tier == "quick" else 240)
    for h in histories:
        env = {"VERIF_WARM": str(h)}
        env.update(env_extra or {})
        for res in xh.run_conditions(harness, funcs, timeout, env_extra=env):
            res["obligation"] = "%s/warm=%d" % (res["obligation"], h)
            if ":kf_" in res["obligation"]:
                # probe of a listed known finding: expected to be violated inside the listed predicate
                if res["verdict"] == "violation" and res.get("known_label") in rep.known:
                    rep.add_xh(res)
                elif res["verdict"] == "violation":
                    rep.add_xh(res)  # label not (or no longer) listed as open: a real violation
                else:
                    rep.engine_notes.append("known-finding probe %s: %s" % (res["obligation"], res["verdict"]))
                continue
            rep.add_xh(res)


def run(tier, rep, only=None):
    rep.bounds = {"family": "Plain, Mapped (keyword-like keys), CaseKeys (keys differing in case), Leafy (datetime/date/bytes/bool), Nested (dataclass, list, dict, optional), Deep (depth 3, dict of dataclass, list of lists), Node (recursive)",
                  "leaves": "str of length <=2 (<=1 in nested shapes), unbounded int, bool, presence flags, list length <=2; datetime/date/base64 leaves by symbolic index into exemplars",
                  "graphs": "all next-edge / children-edge assignments over 3 nodes, all mixed assignments over 2 nodes",
                  "warm_up_histories": [0, 1] if tier == "quick" else [0, 1, 2], "per_condition_timeout_s": 60 if tier == "quick" else 240}
    rep.stubs = ["cattrs.gen.eval -> untraced real eval (CrossHair's eval patch breaks cattrs code generation)",
                 "_make_dataclass_structure_fn/_make_dataclass_unstructure_fn memoised per class (the converter regenerates them on every call; generation under the tracer is not replay-deterministic)"]
    rep.assumptions = ["tolerance of C03 applied: an absent optional may come back as null / empty container", "types outside the family and nesting deeper than 3 are outside the claim",
                       "CrossHair's 'Confirmed over all paths' is taken as the solver's verdict for the condition; anything else is inconclusive"]
    rep.note_functions(FUNCS)
    run_harness(rep, HARNESS, tier, [0, 1] if tier == "quick" else [0, 1, 2], only)


def replay(path):
    v = json.load(open(path))["violation"]
    name = v["obligation"].split(":")[1].split("/")[0]
    warm = v["obligation"].split("warm=")[-1]
    os.environ["VERIF_WARM"] = warm
    mod = xh.load_harness(HARNESS)
    rep, detail, _ = xh.replay_native(mod, name, v["inputs"])
    print("replay %s(%s) -> reproduced=%s %s" % (name, v["inputs"], rep, detail))
    return 1 if rep else 0
