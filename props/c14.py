"""C14 — Union values are decoded as the right variant, never lossily (engine E2 / CrossHair on generated code).

Union aliases are emitted this run by the real generator from harness/t_union.py (discriminator with mapping; disjoint
required fields; one variant's required set a subset of the other's, in both orders; all-optional variants; primitive |
primitive; primitive | object; list | object; unions as fields, list items and nullable fields of a model);
harness/h_c14.py states the laws over symbolic leaves, presence flags and the symbolic choice of the variant."""
from __future__ import annotations

import json
import os
import subprocess
import sys

import gen
import xh
from common import VERIF
from props.c16 import run_harness

HARNESS = os.path.join(VERIF, "harness", "h_c14.py")
FUNCS = ["pyopenapi_gen.core.cattrs_converter:_structure_union", "pyopenapi_gen.core.writers.python_construct_renderer:PythonConstructRenderer.render_alias", "pyopenapi_gen.core.cattrs_converter:structure_from_dict", "pyopenapi_gen.core.cattrs_converter:unstructure_to_dict",
         "pyopenapi_gen.visit.model.dataclass_generator:DataclassGenerator.generate", "pyopenapi_gen.core.writers.python_construct_renderer:PythonConstructRenderer.render_dataclass",
         "pyopenapi_gen.types.resolvers.schema_resolver:OpenAPISchemaResolver._resolve_string", "pyopenapi_gen.visit.model.enum_generator:EnumGenerator.generate"]


def prepare():
    sys.path.insert(0, VERIF)
    from harness.t_union import spec

    root = gen.workdir("c14", fresh=True)
    files, err = gen.generate(spec(), root, "cl14")
    return root, err


def run(tier, rep, only=None):
    root, err = prepare()
    rep.bounds = {"unions": "Pet (discriminator+mapping), Shape (disjoint), Overlap/OverlapRev (required-subset, both orders), AllOpt, IntOrStr, StrOrBasic, ListOrBasic, Holder (union-typed field, list of union, nullable union)",
                  "leaves": "str length <=2, unbounded int, bool, presence of every optional property symbolic, list lengths <=2; format/enum leaves by symbolic index into exemplars",
                  "warm_up_histories": [0, 1]}
    rep.stubs = ["cattrs.gen.eval -> untraced eval", "converter's per-call code generation memoised per class"]
    rep.assumptions = ["tolerated difference: absent optional may reappear as null or empty container", "schemas outside the template family are outside the claim"]
    rep.note_functions(FUNCS)
    if err:
        rep.violations.append({"obligation": "generate(cl14)", "inputs": {"spec": "U"}, "detail": "generation failed: " + err})
        return
    p = subprocess.run([sys.executable, "-c", "import cl14.models, cl14.core.cattrs_converter"], cwd=root, capture_output=True, text=True,
                       env=dict(os.environ, PYTHONPATH=root))
    if p.returncode != 0:
        rep.violations.append({"obligation": "import(cl14.models)", "inputs": {"spec": "U"}, "detail": "generated models do not import: " + (p.stderr.strip().splitlines() or ["?"])[-1][:300]})
        return
    run_harness(rep, HARNESS, tier, [0, 1], only, env_extra={"VERIF_GEN_ROOT": root})
    # generation half of the discriminator clause (symx): the mapping of a generated alias leads to the variant models
    from props import c14map
    from symx import explore

    sp = c14map.specs(tier)
    if only:
        sp = [s for s in sp if only in explore.build(s).name]
    if sp:
        res = explore.run_all(sp, log=lambda m: print("[c14/mapping]", m, flush=True))
        for spec in sp:
            ob = explore.build(spec)
            rep.add_symx(res[ob.name], functions=ob.functions, bounds=ob.bounds)
        rep.stubs.append("mapping targets: ModelsEmitter._generate_model_file/_generate_init_py_content -> no-op (naming loop real)")


def replay(path):
    v = json.load(open(path))["violation"]
    if v["obligation"].startswith(("mapping_targets/", "unified_enum/")):
        from props import c14map

        ob = c14map.replay_ob(v)
        r = ob.run_real(v["inputs"])
        ok, why = ob.verdict(v["inputs"], r)
        print("replay %s inputs=%r -> holds=%s %s" % (v["obligation"], v["inputs"], ok, why))
        return 0 if ok else 1
    root, err = prepare()
    os.environ["VERIF_GEN_ROOT"] = root
    name = v["obligation"].split(":")[1].split("/")[0]
    os.environ["VERIF_WARM"] = v["obligation"].split("warm=")[-1]
    mod = xh.load_harness(HARNESS)
    rep, detail, _ = xh.replay_native(mod, name, v["inputs"])
    print("replay %s(%s) -> reproduced=%s %s" % (name, v["inputs"], rep, detail))
    return 1 if rep else 0
